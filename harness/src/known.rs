//! known_findings.json: genuine defects recorded (status "known") or repaired (status "fixed").
use serde::Deserialize;

#[derive(Debug, Clone, Deserialize)]
pub struct Finding {
    pub property: String,
    pub signature: String,
    pub status: String,
    #[serde(default)]
    pub commit: Option<String>,
    pub what: String,
}

pub fn load() -> Vec<Finding> {
    let p = "/verif/known_findings.json";
    match std::fs::read_to_string(p) {
        Ok(s) => serde_json::from_str::<Vec<Finding>>(&s).expect("known_findings.json is malformed"),
        Err(_) => vec![],
    }
}

/// Is this (property, signature) a recorded, unrepaired finding?
pub fn is_known<'a>(all: &'a [Finding], property: &str, signature: &str) -> Option<&'a Finding> {
    all.iter()
        .find(|f| f.status == "known" && f.property == property && f.signature == signature)
}

//! towerbox — the real tower, in-process. Boot replicates teos/src/main.rs from a data directory.

use std::ops::Deref;
use std::panic::{catch_unwind, AssertUnwindSafe};
use std::path::{Path, PathBuf};
use std::sync::Arc;

use bitcoin::block::Header;
use bitcoin::network::Network;
use bitcoin::secp256k1::{PublicKey, Secp256k1};
use bitcoincore_rpc::jsonrpc;
use lightning::chain::transaction::TransactionData;
use lightning::chain::Listen;
use lightning_block_sync::init::validate_best_block_header;
use lightning_block_sync::poll::{ChainPoller, Poll, Validate, ValidatedBlock, ValidatedBlockHeader};
use lightning_block_sync::{BlockSource, SpvClient, UnboundedCache};
use tonic::{Request, Status};

use teos::api::internal::InternalAPI;
use teos::carrier::Carrier;
use teos::chain_monitor::ChainMonitor;
use teos::dbm::DBM;
use teos::gatekeeper::Gatekeeper;
use teos::protos as msgs;
use teos::protos::private_tower_services_server::PrivateTowerServices;
use teos::protos::public_tower_services_server::PublicTowerServices;
use teos::responder::Responder;
use teos::watcher::Watcher;
use teos_common::constants::IRREVOCABLY_RESOLVED;
use teos_common::cryptography::get_random_keypair;
use teos_common::protos as common_msgs;
use teos_common::TowerId;

use crate::simnode::{Call, Node, NodeTransport};
use crate::tsync::{Condvar, Mutex};

#[derive(Debug, Clone, Copy, serde::Serialize, serde::Deserialize, PartialEq, Eq)]
pub struct TowerCfg {
    pub slots: u32,
    pub duration: u32,
    pub grace: u32,
}

impl Default for TowerCfg {
    fn default() -> Self {
        TowerCfg {
            slots: 100,
            duration: 1000,
            grace: 6,
        }
    }
}

/// Harness listener marking begin/end of each block event in the node's log.
pub struct Marker {
    node: Arc<Node>,
    begin: bool,
}
impl Listen for Marker {
    fn filtered_block_connected(&self, header: &Header, _txdata: &TransactionData, height: u32) {
        let h = header.block_hash();
        self.node.mark(if self.begin {
            Call::BlockBegin(h, height)
        } else {
            Call::BlockEnd(h, height)
        });
    }
    fn block_disconnected(&self, header: &Header, height: u32) {
        let h = header.block_hash();
        self.node.mark(if self.begin {
            Call::DisconnectBegin(h, height)
        } else {
            Call::DisconnectEnd(h, height)
        });
    }
}

/// Same order as main.rs: gatekeeper -> (watcher -> responder), bracketed by the markers.
pub struct Listeners {
    pre: Marker,
    inner: (Arc<Gatekeeper>, Box<(Arc<Watcher>, Arc<Responder>)>),
    post: Marker,
}
impl Listen for Listeners {
    fn filtered_block_connected(&self, header: &Header, txdata: &TransactionData, height: u32) {
        self.pre.filtered_block_connected(header, txdata, height);
        self.inner.filtered_block_connected(header, txdata, height);
        self.post.filtered_block_connected(header, txdata, height);
    }
    fn block_disconnected(&self, header: &Header, height: u32) {
        self.pre.block_disconnected(header, height);
        self.inner.block_disconnected(header, height);
        self.post.block_disconnected(header, height);
    }
}

type Monitor = ChainMonitor<'static, ChainPoller<Arc<Node>, Node>, UnboundedCache, Arc<Listeners>>;

pub struct Tower {
    pub api: Arc<InternalAPI>,
    pub watcher: Arc<Watcher>,
    pub responder: Arc<Responder>,
    pub gatekeeper: Arc<Gatekeeper>,
    pub dbm: Arc<Mutex<DBM>>,
    pub reachable: Arc<(Mutex<bool>, Condvar)>,
    pub node: Arc<Node>,
    pub db_path: PathBuf,
    pub tower_pk: PublicKey,
    monitor: Option<Monitor>,
    cache: *mut UnboundedCache,
    pub rt: tokio::runtime::Runtime,
    _shutdown: triggered::Trigger,
    snap_conn: std::sync::Mutex<Option<rusqlite::Connection>>,
}

// The raw cache pointer is only touched through `monitor`, which is used from one thread at a time.
unsafe impl Send for Tower {}

impl Drop for Tower {
    fn drop(&mut self) {
        self.monitor = None;
        unsafe {
            drop(Box::from_raw(self.cache));
        }
    }
}

#[derive(Debug)]
pub enum BootError {
    NotEnoughBlocks,
    Panic(String),
    Other(String),
}

async fn get_last_n_blocks(
    poller: &mut ChainPoller<Arc<Node>, Node>,
    mut last_known_block: ValidatedBlockHeader,
    n: usize,
) -> Result<Vec<ValidatedBlock>, lightning_block_sync::BlockSourceError> {
    let mut last_n_blocks = Vec::with_capacity(n);
    for _ in 0..n {
        let block = poller.fetch_block(&last_known_block).await?;
        last_known_block = poller.look_up_previous_header(&last_known_block).await?;
        last_n_blocks.push(block);
    }
    Ok(last_n_blocks)
}

pub fn panic_message(p: Box<dyn std::any::Any + Send>) -> String {
    if p.downcast_ref::<crate::panics::HarnessUnwind>().is_some() {
        return crate::faults::CRASH.to_string();
    }
    if let Some(s) = p.downcast_ref::<&str>() {
        s.to_string()
    } else if let Some(s) = p.downcast_ref::<String>() {
        s.clone()
    } else {
        "<non-string panic>".into()
    }
}

impl Tower {
    /// Replicates the bootstrap of teos/src/main.rs (from "let dbm = ..." to "InternalAPI::new").
    pub fn boot(node: Arc<Node>, dir: &Path, cfg: TowerCfg) -> Result<Tower, BootError> {
        let r = catch_unwind(AssertUnwindSafe(|| Self::boot_inner(node, dir, cfg)));
        match r {
            Ok(x) => x,
            Err(p) => {
                let m = panic_message(p);
                if m == crate::faults::CRASH {
                    Err(BootError::Panic(m))
                } else {
                    Err(BootError::Panic(crate::panics::last_or(m)))
                }
            }
        }
    }

    fn boot_inner(node: Arc<Node>, dir: &Path, cfg: TowerCfg) -> Result<Tower, BootError> {
        let rt = tokio::runtime::Builder::new_current_thread()
            .enable_all()
            .build()
            .unwrap();
        std::fs::create_dir_all(dir).map_err(|e| BootError::Other(e.to_string()))?;
        let db_path = dir.join("teos_db.sql3");
        let dbm = Arc::new(Mutex::new(
            DBM::new(db_path.clone()).map_err(|e| BootError::Other(e.to_string()))?,
        ));

        let (tower_sk, tower_pk) = {
            let locked_db = dbm.lock().unwrap();
            if let Some(sk) = locked_db.load_tower_key() {
                (sk, PublicKey::from_secret_key(&Secp256k1::new(), &sk))
            } else {
                let (sk, pk) = get_random_keypair();
                locked_db.store_tower_key(&sk).unwrap();
                (sk, pk)
            }
        };

        let bitcoind_reachable = Arc::new((Mutex::new(true), Condvar::new()));
        let rpc = Arc::new(bitcoincore_rpc::Client::from_jsonrpc(
            jsonrpc::client::Client::with_transport(NodeTransport(node.clone())),
        ));

        let last_known_block = dbm.lock().unwrap().load_last_known_block();
        let tip = rt.block_on(async {
            if let Some(block_hash) = last_known_block {
                Ok(node
                    .deref()
                    .get_header(&block_hash, None)
                    .await
                    .unwrap()
                    .validate(block_hash)
                    .unwrap())
            } else {
                validate_best_block_header(node.clone())
                    .await
                    .map_err(|e| BootError::Other(format!("{e:?}")))
            }
        })?;

        // (mirrors main.rs) persist the bootstrap tip if there was no last known block yet
        if last_known_block.is_none() {
            dbm.lock().unwrap().store_last_known_block(&tip.header.block_hash()).unwrap();
        }

        if tip.height < IRREVOCABLY_RESOLVED {
            return Err(BootError::NotEnoughBlocks);
        }

        let gatekeeper = Arc::new(Gatekeeper::new(
            tip.height,
            cfg.slots,
            cfg.duration,
            cfg.grace,
            dbm.clone(),
        ));

        let mut poller = ChainPoller::new(node.clone(), Network::Regtest);
        let last_n_blocks = rt
            .block_on(get_last_n_blocks(&mut poller, tip, IRREVOCABLY_RESOLVED as usize))
            .map_err(|e| BootError::Other(format!("last_n_blocks: {:?}", e.into_inner())))?;

        let responder = Arc::new(Responder::new(
            &last_n_blocks,
            tip.height,
            Carrier::new(rpc, bitcoind_reachable.clone(), tip.height),
            gatekeeper.clone(),
            dbm.clone(),
        ));
        let watcher = Arc::new(Watcher::new(
            gatekeeper.clone(),
            responder.clone(),
            &last_n_blocks[0..6],
            tip.height,
            tower_sk,
            TowerId(tower_pk),
            dbm.clone(),
        ));

        let (shutdown_trigger, shutdown_signal) = triggered::trigger();

        let listener = Arc::new(Listeners {
            pre: Marker {
                node: node.clone(),
                begin: true,
            },
            inner: (
                gatekeeper.clone(),
                Box::new((watcher.clone(), responder.clone())),
            ),
            post: Marker {
                node: node.clone(),
                begin: false,
            },
        });
        let cache: *mut UnboundedCache = Box::into_raw(Box::new(UnboundedCache::new()));
        let cache_ref: &'static mut UnboundedCache = unsafe { &mut *cache };
        let spv_client = SpvClient::new(tip, poller, cache_ref, listener);
        let mut chain_monitor = rt.block_on(ChainMonitor::new(
            spv_client,
            tip,
            dbm.clone(),
            60,
            shutdown_signal,
            bitcoind_reachable.clone(),
        ));

        // from here on a panic must still free the cache: build the Tower first
        let internal_api = Arc::new(InternalAPI::new(
            watcher.clone(),
            vec![msgs::NetworkAddress::from_ipv4("127.0.0.1".to_string(), 9814)],
            bitcoind_reachable.clone(),
            shutdown_trigger.clone(),
        ));
        rt.block_on(chain_monitor.poll_best_tip());

        Ok(Tower {
            api: internal_api,
            watcher,
            responder,
            gatekeeper,
            dbm,
            reachable: bitcoind_reachable,
            node,
            db_path,
            tower_pk,
            monitor: Some(chain_monitor),
            cache,
            rt,
            _shutdown: shutdown_trigger,
            snap_conn: std::sync::Mutex::new(None),
        })
    }

    fn guarded<T>(&self, f: impl FnOnce() -> T) -> Result<T, String> {
        crate::panics::clear();
        catch_unwind(AssertUnwindSafe(f)).map_err(|p| {
            let m = panic_message(p);
            if m == crate::faults::CRASH {
                m
            } else {
                crate::panics::last_or(m)
            }
        })
    }

    pub fn poll(&mut self) -> Result<(), String> {
        let mut m = self.monitor.take().unwrap();
        crate::panics::clear();
        let r = catch_unwind(AssertUnwindSafe(|| {
            self.rt.block_on(m.poll_best_tip());
        }));
        self.monitor = Some(m);
        r.map_err(|p| {
            let m = panic_message(p);
            if m == crate::faults::CRASH {
                m
            } else {
                crate::panics::last_or(m)
            }
        })
    }

    pub fn register(&self, user_id: Vec<u8>) -> Result<Result<common_msgs::RegisterResponse, Status>, String> {
        self.guarded(|| {
            self.rt
                .block_on(PublicTowerServices::register(
                    &self.api,
                    Request::new(common_msgs::RegisterRequest { user_id }),
                ))
                .map(|r| r.into_inner())
        })
    }

    pub fn add_appointment(
        &self,
        locator: Vec<u8>,
        encrypted_blob: Vec<u8>,
        to_self_delay: u32,
        signature: String,
    ) -> Result<Result<common_msgs::AddAppointmentResponse, Status>, String> {
        self.guarded(|| {
            self.rt
                .block_on(PublicTowerServices::add_appointment(
                    &self.api,
                    Request::new(common_msgs::AddAppointmentRequest {
                        appointment: Some(common_msgs::Appointment {
                            locator,
                            encrypted_blob,
                            to_self_delay,
                        }),
                        signature,
                    }),
                ))
                .map(|r| r.into_inner())
        })
    }

    pub fn get_appointment(
        &self,
        locator: Vec<u8>,
        signature: String,
    ) -> Result<Result<common_msgs::GetAppointmentResponse, Status>, String> {
        self.guarded(|| {
            self.rt
                .block_on(PublicTowerServices::get_appointment(
                    &self.api,
                    Request::new(common_msgs::GetAppointmentRequest { locator, signature }),
                ))
                .map(|r| r.into_inner())
        })
    }

    pub fn get_subscription_info(
        &self,
        signature: String,
    ) -> Result<Result<common_msgs::GetSubscriptionInfoResponse, Status>, String> {
        self.guarded(|| {
            self.rt
                .block_on(PublicTowerServices::get_subscription_info(
                    &self.api,
                    Request::new(common_msgs::GetSubscriptionInfoRequest { signature }),
                ))
                .map(|r| r.into_inner())
        })
    }

    pub fn get_all_appointments(&self) -> Result<msgs::GetAllAppointmentsResponse, String> {
        self.guarded(|| {
            self.rt
                .block_on(PrivateTowerServices::get_all_appointments(&self.api, Request::new(())))
                .unwrap()
                .into_inner()
        })
    }

    pub fn get_tower_info(&self) -> Result<msgs::GetTowerInfoResponse, String> {
        self.guarded(|| {
            self.rt
                .block_on(PrivateTowerServices::get_tower_info(&self.api, Request::new(())))
                .unwrap()
                .into_inner()
        })
    }

    pub fn get_users(&self) -> Result<Vec<Vec<u8>>, String> {
        self.guarded(|| {
            self.rt
                .block_on(PrivateTowerServices::get_users(&self.api, Request::new(())))
                .unwrap()
                .into_inner()
                .user_ids
        })
    }

    pub fn get_user(&self, user_id: Vec<u8>) -> Result<Option<msgs::GetUserResponse>, String> {
        self.guarded(|| {
            self.rt
                .block_on(PrivateTowerServices::get_user(
                    &self.api,
                    Request::new(msgs::GetUserRequest { user_id }),
                ))
                .ok()
                .map(|r| r.into_inner())
        })
    }

    pub fn snapshot(&self) -> Snapshot {
        let mut g = self.snap_conn.lock().unwrap_or_else(|e| e.into_inner());
        if g.is_none() {
            *g = Some(rusqlite::Connection::open_with_flags(&self.db_path, rusqlite::OpenFlags::SQLITE_OPEN_READ_ONLY).unwrap());
        }
        Snapshot::read_conn(g.as_ref().unwrap())
    }
}

/// Raw contents of the tower's sqlite file, canonically ordered.
#[derive(Debug, Clone, PartialEq, Eq, Default, serde::Serialize)]
pub struct Snapshot {
    /// user_id -> (available_slots, start, expiry)
    pub users: std::collections::BTreeMap<Vec<u8>, (u32, u32, u32)>,
    /// uuid -> row
    pub appointments: std::collections::BTreeMap<Vec<u8>, ApptRow>,
    pub trackers: std::collections::BTreeMap<Vec<u8>, TrackerRow>,
    pub last_known_block: Option<Vec<u8>>,
    pub n_keys: u32,
    pub fk_violations: u32,
}

#[derive(Debug, Clone, PartialEq, Eq, serde::Serialize)]
pub struct ApptRow {
    pub locator: Vec<u8>,
    pub blob: Vec<u8>,
    pub delay: u32,
    pub user_signature: String,
    pub start_block: u32,
    pub user_id: Vec<u8>,
}

#[derive(Debug, Clone, PartialEq, Eq, serde::Serialize)]
pub struct TrackerRow {
    pub dispute_tx: Vec<u8>,
    pub penalty_tx: Vec<u8>,
    pub height: u32,
    pub confirmed: bool,
}

impl Snapshot {
    pub fn read(path: &Path) -> Snapshot {
        let conn = rusqlite::Connection::open_with_flags(path, rusqlite::OpenFlags::SQLITE_OPEN_READ_ONLY).unwrap();
        Self::read_conn(&conn)
    }

    pub fn read_conn(conn: &rusqlite::Connection) -> Snapshot {
        let mut s = Snapshot::default();
        {
            let mut st = conn
                .prepare_cached("SELECT user_id, available_slots, subscription_start, subscription_expiry FROM users")
                .unwrap();
            let mut rows = st.query([]).unwrap();
            while let Ok(Some(r)) = rows.next() {
                s.users.insert(
                    r.get::<_, Vec<u8>>(0).unwrap(),
                    (r.get(1).unwrap(), r.get(2).unwrap(), r.get(3).unwrap()),
                );
            }
        }
        {
            let mut st = conn
                .prepare_cached("SELECT UUID, locator, encrypted_blob, to_self_delay, user_signature, start_block, user_id FROM appointments")
                .unwrap();
            let mut rows = st.query([]).unwrap();
            while let Ok(Some(r)) = rows.next() {
                s.appointments.insert(
                    r.get::<_, Vec<u8>>(0).unwrap(),
                    ApptRow {
                        locator: r.get(1).unwrap(),
                        blob: r.get(2).unwrap(),
                        delay: r.get(3).unwrap(),
                        user_signature: r.get(4).unwrap(),
                        start_block: r.get(5).unwrap(),
                        user_id: r.get(6).unwrap(),
                    },
                );
            }
        }
        {
            let mut st = conn
                .prepare_cached("SELECT UUID, dispute_tx, penalty_tx, height, confirmed FROM trackers")
                .unwrap();
            let mut rows = st.query([]).unwrap();
            while let Ok(Some(r)) = rows.next() {
                s.trackers.insert(
                    r.get::<_, Vec<u8>>(0).unwrap(),
                    TrackerRow {
                        dispute_tx: r.get(1).unwrap(),
                        penalty_tx: r.get(2).unwrap(),
                        height: r.get(3).unwrap(),
                        confirmed: r.get(4).unwrap(),
                    },
                );
            }
        }
        s.last_known_block = conn
            .query_row("SELECT block_hash FROM last_known_block WHERE id=0", [], |r| r.get(0))
            .ok();
        s.n_keys = conn.query_row("SELECT COUNT(*) FROM keys", [], |r| r.get(0)).unwrap_or(0);
        {
            let mut st = conn.prepare_cached("PRAGMA foreign_key_check").unwrap();
            let mut rows = st.query([]).unwrap();
            while let Ok(Some(_)) = rows.next() {
                s.fk_violations += 1;
            }
        }
        s
    }
}

//! plugbox — the real `watchtower-client` process driven over its stdin/stdout plugin protocol by a fake
//! lightningd, against scripted fake towers (tiny HTTP/1.1 servers on loopback ports).

use std::collections::{HashMap, VecDeque};
use std::io::{Read, Write};
use std::net::{SocketAddr, TcpListener, TcpStream};
use std::path::PathBuf;
use std::process::{Child, ChildStdin, Command, Stdio};
use std::sync::atomic::{AtomicBool, AtomicU64, Ordering};
use std::sync::mpsc::{channel, Receiver, RecvTimeoutError};
use std::sync::{Arc, Mutex};
use std::time::{Duration, Instant};

use bitcoin::secp256k1::{PublicKey, Secp256k1, SecretKey};
use serde_json::{json, Value};

use teos_common::receipts::{AppointmentReceipt, RegistrationReceipt};
use teos_common::UserId;

pub const PLUGIN_BIN: &str = "/verif/harness/target/bins/debug/watchtower-client";

#[derive(Debug, Clone, Copy)]
pub struct PluginOpts {
    pub max_retry_time: u32,
    pub auto_retry_delay: u32,
    pub max_retry_interval: u32,
}

pub struct Plugin {
    child: Child,
    stdin: ChildStdin,
    responses: Receiver<Value>,
    pending: HashMap<u64, Value>,
    next_id: u64,
    pub logs: Arc<Mutex<Vec<(Instant, String)>>>,
    pub stderr: Arc<Mutex<String>>,
    pub data_dir: PathBuf,
    pub started: Instant,
}

#[derive(Debug, Clone, PartialEq)]
pub enum CallError {
    /// the plugin answered with a JSON-RPC error
    Rpc(Value),
    /// no answer within the time limit (the handler task died or hangs)
    Timeout,
    /// the process is gone
    Dead(String),
}

impl Plugin {
    pub fn start(data_dir: &PathBuf, opts: PluginOpts, crash_at: Option<u64>) -> Result<Plugin, String> {
        std::fs::create_dir_all(data_dir).map_err(|e| e.to_string())?;
        let mut cmd = Command::new(PLUGIN_BIN);
        cmd.env("TOWERS_DATA_DIR", data_dir).env("RUST_BACKTRACE", "0").stdin(Stdio::piped()).stdout(Stdio::piped()).stderr(Stdio::piped());
        cmd.env_remove("TEOS_VERIF_CRASH_AT");
        if let Some(n) = crash_at {
            cmd.env("TEOS_VERIF_CRASH_AT", n.to_string());
        }
        let mut child = cmd.spawn().map_err(|e| format!("cannot start {PLUGIN_BIN}: {e}"))?;
        let stdin = child.stdin.take().unwrap();
        let mut stdout = child.stdout.take().unwrap();
        let mut stderr_pipe = child.stderr.take().unwrap();
        let (tx, rx) = channel();
        let logs = Arc::new(Mutex::new(vec![]));
        let logs2 = logs.clone();
        std::thread::spawn(move || {
            let mut buf: Vec<u8> = vec![];
            let mut tmp = [0u8; 65536];
            loop {
                match stdout.read(&mut tmp) {
                    Ok(0) | Err(_) => break,
                    Ok(n) => {
                        buf.extend_from_slice(&tmp[..n]);
                        while let Some(pos) = buf.windows(2).position(|w| w == b"\n\n") {
                            let msg: Vec<u8> = buf.drain(..pos + 2).collect();
                            if let Ok(v) = serde_json::from_slice::<Value>(&msg) {
                                if v.get("id").is_some() && (v.get("result").is_some() || v.get("error").is_some()) {
                                    let _ = tx.send(v);
                                } else if v.get("method").and_then(|m| m.as_str()) == Some("log") {
                                    logs2.lock().unwrap().push((Instant::now(), v["params"]["message"].as_str().unwrap_or("").to_string()));
                                }
                            }
                        }
                    }
                }
            }
        });
        let stderr = Arc::new(Mutex::new(String::new()));
        let stderr2 = stderr.clone();
        std::thread::spawn(move || {
            let mut tmp = [0u8; 4096];
            loop {
                match stderr_pipe.read(&mut tmp) {
                    Ok(0) | Err(_) => break,
                    Ok(n) => stderr2.lock().unwrap().push_str(&String::from_utf8_lossy(&tmp[..n])),
                }
            }
        });
        let mut p = Plugin { child, stdin, responses: rx, pending: HashMap::new(), next_id: 1, logs, stderr, data_dir: data_dir.clone(), started: Instant::now() };
        p.call("getmanifest", json!({"allow-deprecated-apis": false}), Duration::from_secs(20)).map_err(|e| format!("getmanifest: {e:?} stderr: {}", p.stderr_text()))?;
        p.call(
            "init",
            json!({
                "options": {
                    "watchtower-port": 9814,
                    "watchtower-max-retry-time": opts.max_retry_time,
                    "watchtower-auto-retry-delay": opts.auto_retry_delay,
                    "dev-watchtower-max-retry-interval": opts.max_retry_interval
                },
                "configuration": {
                    "lightning-dir": data_dir.to_string_lossy(),
                    "rpc-file": "lightning-rpc",
                    "startup": true,
                    "network": "regtest",
                    "feature_set": {"init": "", "node": "", "channel": "", "invoice": ""}
                }
            }),
            Duration::from_secs(20),
        )
        .map_err(|e| format!("init: {e:?} stderr: {}", p.stderr_text()))?;
        Ok(p)
    }

    pub fn stderr_text(&self) -> String {
        self.stderr.lock().unwrap().clone()
    }

    pub fn alive(&mut self) -> bool {
        matches!(self.child.try_wait(), Ok(None))
    }

    pub fn send(&mut self, method: &str, params: Value) -> Result<u64, CallError> {
        let id = self.next_id;
        self.next_id += 1;
        let msg = json!({"jsonrpc": "2.0", "id": id, "method": method, "params": params});
        let mut s = serde_json::to_vec(&msg).unwrap();
        s.extend_from_slice(b"\n\n");
        self.stdin.write_all(&s).and_then(|_| self.stdin.flush()).map_err(|e| CallError::Dead(e.to_string()))?;
        Ok(id)
    }

    pub fn wait(&mut self, id: u64, timeout: Duration) -> Result<Value, CallError> {
        let deadline = Instant::now() + timeout;
        loop {
            if let Some(v) = self.pending.remove(&id) {
                return match v.get("error") {
                    Some(e) if !e.is_null() => Err(CallError::Rpc(e.clone())),
                    _ => Ok(v["result"].clone()),
                };
            }
            let left = deadline.saturating_duration_since(Instant::now());
            match self.responses.recv_timeout(left.min(Duration::from_millis(200))) {
                Ok(v) => {
                    let rid = v["id"].as_u64().unwrap_or(0);
                    self.pending.insert(rid, v);
                }
                Err(RecvTimeoutError::Timeout) => {
                    if !self.alive() {
                        return Err(CallError::Dead(format!("process exited: {:?}", self.child.try_wait())));
                    }
                    if Instant::now() >= deadline {
                        return Err(CallError::Timeout);
                    }
                }
                Err(RecvTimeoutError::Disconnected) => return Err(CallError::Dead("stdout closed".into())),
            }
        }
    }

    pub fn call(&mut self, method: &str, params: Value, timeout: Duration) -> Result<Value, CallError> {
        let id = self.send(method, params)?;
        self.wait(id, timeout)
    }

    /// SIGKILL
    pub fn kill(&mut self) {
        let _ = self.child.kill();
        let _ = self.child.wait();
    }

    pub fn log_lines(&self) -> Vec<(Instant, String)> {
        self.logs.lock().unwrap().clone()
    }
}

impl Drop for Plugin {
    fn drop(&mut self) {
        self.kill();
    }
}

// ---------------------------------------------------------------------------------------------------
// fake tower

#[derive(Debug, Clone, PartialEq, serde::Serialize, serde::Deserialize)]
pub enum Behaviour {
    /// properly signed answer
    Accept,
    /// the port is closed (connection refused)
    Refuse,
    /// accept the connection, close it without a byte
    Reset,
    /// 401 + error_code 7
    SubscriptionError,
    /// 400 + another documented code
    Reject(u8),
    /// status + arbitrary body
    Raw(u16, Vec<u8>),
    /// valid shape, signature by another key
    WrongSig,
    /// valid shape, signature field replaced by this string
    MalformedSig(String),
    /// valid JSON of another shape
    WrongShape(String),
    /// register only: a receipt that does not extend the subscription (0 = same expiry, 1 = same slots)
    NotExtending(u8),
    /// one field of the valid answer replaced by this JSON
    FieldReplaced(String, String),
    /// signed by another key AND one field (outside the signed message) replaced
    WrongSigField(String, String),
}

#[derive(Debug, Clone)]
pub struct Served {
    pub at: Instant,
    pub done: Instant,
    pub path: String,
    pub body: Value,
    pub behaviour: Behaviour,
}

pub struct TowerState {
    pub sk: SecretKey,
    pub scripts: HashMap<String, VecDeque<Behaviour>>,
    pub default: HashMap<String, Behaviour>,
    pub served: Vec<Served>,
    pub refused_windows: Vec<(Instant, Option<Instant>)>,
    pub slots: u32,
    pub expiry: u32,
    pub start_block: u32,
    pub up: bool,
    /// every reply is held back this long (a slow tower)
    pub delay_ms: u64,
    /// the user's subscription has run out: appointments are refused with the subscription error until /register is served
    pub needs_renewal: bool,
    /// slots a registration adds (100 unless a check wants towers that run out)
    pub grant: u32,
    /// refuse appointments with the subscription error when no slot is left (what a real tower does)
    pub enforce_slots: bool,
}

pub struct FakeTower {
    pub port: u16,
    pub sk: SecretKey,
    pub id: UserId,
    pub state: Arc<Mutex<TowerState>>,
    stop: Arc<AtomicBool>,
    in_flight: Arc<AtomicU64>,
    pub max_in_flight: Arc<AtomicU64>,
    /// requests read off the wire so far (counted on arrival; `served` is appended to only after the reply has gone out,
    /// by which time the client may long have acted on it)
    arrived: Arc<AtomicU64>,
}

fn read_http_request(s: &mut TcpStream) -> Option<(String, String, Vec<u8>)> {
    s.set_read_timeout(Some(Duration::from_secs(5))).ok()?;
    let mut buf = vec![];
    let mut tmp = [0u8; 8192];
    loop {
        if let Some(pos) = buf.windows(4).position(|w| w == b"\r\n\r\n") {
            let head = String::from_utf8_lossy(&buf[..pos]).to_string();
            let mut lines = head.lines();
            let first = lines.next()?.to_string();
            let mut parts = first.split_whitespace();
            let method = parts.next()?.to_string();
            let path = parts.next()?.to_string();
            let len = head.lines().find_map(|l| l.to_ascii_lowercase().strip_prefix("content-length:").map(|v| v.trim().parse::<usize>().unwrap_or(0))).unwrap_or(0);
            let mut body = buf[pos + 4..].to_vec();
            while body.len() < len {
                match s.read(&mut tmp) {
                    Ok(0) | Err(_) => break,
                    Ok(n) => body.extend_from_slice(&tmp[..n]),
                }
            }
            return Some((method, path, body));
        }
        match s.read(&mut tmp) {
            Ok(0) | Err(_) => return None,
            Ok(n) => buf.extend_from_slice(&tmp[..n]),
        }
    }
}

fn respond(s: &mut TcpStream, status: u16, body: &[u8]) {
    let head = format!("HTTP/1.1 {status} X\r\nContent-Type: application/json\r\nContent-Length: {}\r\nConnection: close\r\n\r\n", body.len());
    let _ = s.write_all(head.as_bytes());
    let _ = s.write_all(body);
    let _ = s.flush();
}

impl FakeTower {
    /// key index `k` decides the tower id
    pub fn start(port: u16, k: u8) -> FakeTower {
        let sk = crate::world::user_sk(50 + k);
        let id = UserId(PublicKey::from_secret_key(&Secp256k1::new(), &sk));
        let state = Arc::new(Mutex::new(TowerState {
            sk,
            scripts: HashMap::new(),
            default: HashMap::new(),
            served: vec![],
            refused_windows: vec![],
            slots: 100,
            expiry: 1000,
            start_block: 500,
            up: true,
            delay_ms: 0,
            needs_renewal: false,
            grant: 100,
            enforce_slots: false,
        }));
        let stop = Arc::new(AtomicBool::new(false));
        let in_flight = Arc::new(AtomicU64::new(0));
        let max_in_flight = Arc::new(AtomicU64::new(0));
        let arrived = Arc::new(AtomicU64::new(0));
        let t = FakeTower { port, sk, id, state: state.clone(), stop: stop.clone(), in_flight: in_flight.clone(), max_in_flight: max_in_flight.clone(), arrived: arrived.clone() };
        let addr: SocketAddr = format!("127.0.0.1:{port}").parse().unwrap();
        std::thread::spawn(move || {
            let mut listener: Option<TcpListener> = None;
            loop {
                if stop.load(Ordering::SeqCst) {
                    break;
                }
                let up = state.lock().unwrap().up;
                if !up {
                    listener = None; // closes the socket: connections are refused
                    std::thread::sleep(Duration::from_millis(20));
                    continue;
                }
                if listener.is_none() {
                    match TcpListener::bind(addr) {
                        Ok(l) => {
                            l.set_nonblocking(true).unwrap();
                            listener = Some(l);
                        }
                        Err(_) => {
                            std::thread::sleep(Duration::from_millis(20));
                            continue;
                        }
                    }
                }
                match listener.as_ref().unwrap().accept() {
                    Ok((mut s, _)) => {
                        let state = state.clone();
                        let in_flight = in_flight.clone();
                        let max_in_flight = max_in_flight.clone();
                        let arrived = arrived.clone();
                        std::thread::spawn(move || {
                            let _ = s.set_nonblocking(false);
                            let at = Instant::now();
                            let n = in_flight.fetch_add(1, Ordering::SeqCst) + 1;
                            max_in_flight.fetch_max(n, Ordering::SeqCst);
                            if let Some((_method, path, body)) = read_http_request(&mut s) {
                                arrived.fetch_add(1, Ordering::SeqCst);
                                let bodyv: Value = serde_json::from_slice(&body).unwrap_or(Value::Null);
                                let b = {
                                    let mut st = state.lock().unwrap();
                                    let scripted = st.scripts.get_mut(&path).and_then(|q| q.pop_front());
                                    scripted.or_else(|| st.default.get(&path).cloned()).unwrap_or(Behaviour::Accept)
                                };
                                let delay = state.lock().unwrap().delay_ms;
                                if delay > 0 {
                                    std::thread::sleep(Duration::from_millis(delay));
                                }
                                serve(&state, &mut s, &path, &bodyv, &b);
                                state.lock().unwrap().served.push(Served { at, done: Instant::now(), path, body: bodyv, behaviour: b });
                            }
                            in_flight.fetch_sub(1, Ordering::SeqCst);
                        });
                    }
                    Err(_) => std::thread::sleep(Duration::from_millis(5)),
                }
            }
        });
        t
    }

    pub fn set_up(&self, up: bool) {
        self.state.lock().unwrap().up = up;
        // give the listener thread time to act
        std::thread::sleep(Duration::from_millis(60));
    }

    pub fn arrived(&self) -> u64 {
        self.arrived.load(Ordering::SeqCst)
    }

    pub fn in_flight(&self) -> u64 {
        self.in_flight.load(Ordering::SeqCst)
    }

    /// Registrations add `grant` slots from now on and appointments are refused once the slots are used up.
    pub fn small_subscriptions(&self, grant: u32) {
        let mut st = self.state.lock().unwrap();
        st.grant = grant;
        st.slots = 0;
        st.enforce_slots = true;
    }

    pub fn expire_subscription(&self) {
        self.state.lock().unwrap().needs_renewal = true;
    }

    pub fn set_delay(&self, ms: u64) {
        self.state.lock().unwrap().delay_ms = ms;
    }

    pub fn script(&self, path: &str, b: Vec<Behaviour>) {
        self.state.lock().unwrap().scripts.entry(path.to_string()).or_default().extend(b);
    }

    pub fn clear_scripts(&self) {
        self.state.lock().unwrap().scripts.clear();
    }

    pub fn set_default(&self, path: &str, b: Behaviour) {
        self.state.lock().unwrap().default.insert(path.to_string(), b);
    }

    pub fn served(&self) -> Vec<Served> {
        self.state.lock().unwrap().served.clone()
    }

    pub fn id_hex(&self) -> String {
        hex::encode(self.id.to_vec())
    }
}

impl Drop for FakeTower {
    fn drop(&mut self) {
        self.stop.store(true, Ordering::SeqCst);
    }
}

fn serve(state: &Arc<Mutex<TowerState>>, s: &mut TcpStream, path: &str, body: &Value, b: &Behaviour) {
    let sk = state.lock().unwrap().sk;
    match b {
        Behaviour::Reset => {
            let _ = s.shutdown(std::net::Shutdown::Both);
        }
        Behaviour::Refuse => {
            let _ = s.shutdown(std::net::Shutdown::Both);
        }
        Behaviour::SubscriptionError => respond(s, 401, br#"{"error":"Your subscription expired at 10","error_code":7}"#),
        Behaviour::Reject(c) => respond(s, 400, format!(r#"{{"error":"rejected by script","error_code":{c}}}"#).as_bytes()),
        Behaviour::Raw(status, bytes) => respond(s, *status, bytes),
        Behaviour::WrongShape(j) => respond(s, 200, j.as_bytes()),
        _ if path == "/add_appointment" && {
            let st = state.lock().unwrap();
            st.needs_renewal || (st.enforce_slots && st.slots == 0)
        } =>
        {
            respond(s, 401, br#"{"error":"Your subscription expired at 10","error_code":7}"#)
        }
        _ => {
            // the valid answer, possibly tampered with
            if path == "/register" {
                state.lock().unwrap().needs_renewal = false;
            }
            let mut v = if path == "/register" {
                let user_hex = body["user_id"].as_str().unwrap_or("");
                let user = hex::decode(user_hex).ok().and_then(|b| UserId::from_slice(&b).ok());
                let (slots, start, expiry) = {
                    let mut st = state.lock().unwrap();
                    match b {
                        Behaviour::NotExtending(0) => st.slots += st.grant,
                        Behaviour::NotExtending(_) => st.expiry += 1000,
                        _ => {
                            st.slots += st.grant;
                            st.expiry += 1000;
                        }
                    }
                    (st.slots, st.start_block, st.expiry)
                };
                match user {
                    Some(u) => {
                        let mut r = RegistrationReceipt::new(u, slots, start, expiry);
                        r.sign(&if matches!(b, Behaviour::WrongSig | Behaviour::WrongSigField(..)) { crate::world::user_sk(99) } else { sk });
                        json!({"user_id": user_hex, "available_slots": slots, "subscription_start": start, "subscription_expiry": expiry, "subscription_signature": r.signature().unwrap()})
                    }
                    None => json!({"error": "bad user id", "error_code": 5}),
                }
            } else {
                let user_sig = body["signature"].as_str().unwrap_or("").to_string();
                let (slots, start, expiry) = {
                    let mut st = state.lock().unwrap();
                    // (a slot is used up by an acknowledgement the client can accept; the tampered variants leave the balance alone,
                    // so that what the client believes and what the tower has do not drift apart by the harness's own doing)
                    if *b == Behaviour::Accept {
                        st.slots = st.slots.saturating_sub(1);
                    }
                    (st.slots, st.start_block, st.expiry)
                };
                let mut r = AppointmentReceipt::new(user_sig, start);
                r.sign(&if matches!(b, Behaviour::WrongSig | Behaviour::WrongSigField(..)) { crate::world::user_sk(99) } else { sk });
                json!({"locator": body["appointment"]["locator"], "start_block": start, "signature": r.signature().unwrap(), "available_slots": slots, "subscription_expiry": expiry})
            };
            match b {
                Behaviour::MalformedSig(m) => {
                    let k = if path == "/register" { "subscription_signature" } else { "signature" };
                    v[k] = json!(m);
                }
                Behaviour::FieldReplaced(field, j) | Behaviour::WrongSigField(field, j) => {
                    let repl: Value = serde_json::from_str(j).unwrap_or(Value::Null);
                    if repl.is_null() && j != "null" {
                        v.as_object_mut().unwrap().remove(field);
                    } else {
                        v[field.as_str()] = repl;
                    }
                }
                _ => {}
            }
            respond(s, 200, v.to_string().as_bytes());
        }
    }
}

/// Ports: a static range per worker, so that a refused tower's port is never somebody else's tower.
/// The block of 1000 ports is claimed for the life of this process by holding a listener on its last port,
/// so that two checks running at the same time never share tower ports.
pub fn port_for(worker: usize, i: usize) -> u16 {
    static BLOCK: std::sync::OnceLock<(u16, Option<TcpListener>)> = std::sync::OnceLock::new();
    let (base, _) = BLOCK.get_or_init(|| {
        for k in 0..20u16 {
            let base = 11000 + k * 1000;
            if let Ok(l) = TcpListener::bind(("127.0.0.1", base + 999)) {
                return (base, Some(l));
            }
        }
        (31000, None)
    });
    (*base as usize + 16 * worker + i) as u16
}

/// (commitment_txid, penalty_tx hex) of revocation number n
pub fn revocation(n: u32) -> (bitcoin::Txid, String, teos_common::appointment::Locator) {
    let d = crate::simnode::txs::dispute(77, n, 0);
    let p = crate::simnode::txs::penalty(&d, 0, 0);
    (d.compute_txid(), hex::encode(bitcoin::consensus::serialize(&p)), teos_common::appointment::Locator::new(d.compute_txid()))
}

pub fn revocation_params(n: u32) -> Value {
    let (txid, ptx, _) = revocation(n);
    json!({"commitment_txid": txid.to_string(), "penalty_tx": ptx, "channel_id": "aa".repeat(32), "commitnum": n})
}

//! Generic campaign driver: N workers, each an independent proptest TestRunner with a fixed seed.
use std::collections::{BTreeMap, BTreeSet};
use std::fmt::Debug;
use std::sync::atomic::{AtomicBool, Ordering};
use std::sync::Mutex;
use std::time::Instant;

use proptest::strategy::{BoxedStrategy, Strategy};
use proptest::test_runner::{Config, RngSeed, TestCaseError, TestError, TestRunner};
use serde::{de::DeserializeOwned, Serialize};
use serde_json::Value;

use crate::evidence::Evidence;
use crate::known::{self, Finding};

#[derive(Debug, Clone, Serialize)]
pub struct Violation {
    pub property: String,
    pub signature: String,
    pub message: String,
}

#[derive(Debug, Default, Clone)]
pub struct CaseReport {
    pub violations: Vec<Violation>,
    pub classes: Vec<String>,
    pub nontrivial: bool,
    /// key for "distinct": cases with equal keys count once
    pub key: String,
    pub sample: Option<Value>,
    /// free counters added up over the campaign
    pub counters: Vec<(String, u64)>,
}

#[derive(Clone, Debug)]
pub struct Ctx {
    pub property: String,
    pub tier: String,
    pub seed: u64,
    pub replay: Option<String>,
    pub workers: usize,
}

impl Ctx {
    pub fn thorough(&self) -> bool {
        self.tier == "thorough"
    }
}

pub trait Campaign: Sync {
    type Case: Debug + Clone + Serialize + DeserializeOwned + Send + 'static;
    fn name(&self) -> &str;
    fn strategy(&self) -> BoxedStrategy<Self::Case>;
    fn run_case(&self, case: &Self::Case, worker: usize) -> CaseReport;
    /// shrink budget (process-level campaigns, whose cases take seconds, keep it tiny)
    fn max_shrink_iters(&self) -> u32 {
        3000
    }
}

#[derive(Default)]
pub struct Stats {
    pub evaluations: u64,
    pub nontrivial: u64,
    pub distinct: BTreeSet<String>,
    pub classes: BTreeMap<String, u64>,
    pub counters: BTreeMap<String, u64>,
    pub samples: Vec<Value>,
    pub known_hits: BTreeMap<(String, String), u64>,
    pub failures: Vec<(Violation, Value)>,
}

impl Stats {
    pub fn absorb(&mut self, rep: &CaseReport) {
        self.evaluations += 1;
        if rep.nontrivial {
            self.nontrivial += 1;
            self.distinct.insert(rep.key.clone());
        }
        for c in &rep.classes {
            *self.classes.entry(c.clone()).or_insert(0) += 1;
        }
        for (k, v) in &rep.counters {
            *self.counters.entry(k.clone()).or_insert(0) += v;
        }
        if let Some(s) = &rep.sample {
            if rep.nontrivial && self.samples.len() < 4 {
                self.samples.push(s.clone());
            }
        }
    }
    pub fn merge(&mut self, o: Stats) {
        self.evaluations += o.evaluations;
        self.nontrivial += o.nontrivial;
        self.distinct.extend(o.distinct);
        for (k, v) in o.classes {
            *self.classes.entry(k).or_insert(0) += v;
        }
        for (k, v) in o.counters {
            *self.counters.entry(k).or_insert(0) += v;
        }
        for s in o.samples {
            if self.samples.len() < 5 {
                self.samples.push(s);
            }
        }
        for (k, v) in o.known_hits {
            *self.known_hits.entry(k).or_insert(0) += v;
        }
        self.failures.extend(o.failures);
    }
}

/// Splits a report's violations into (unknown, known).
pub fn triage(findings: &[Finding], rep: &CaseReport) -> (Vec<Violation>, Vec<Violation>) {
    let mut unknown = vec![];
    let mut kn = vec![];
    for v in &rep.violations {
        if known::is_known(findings, &v.property, &v.signature).is_some() {
            kn.push(v.clone());
        } else {
            unknown.push(v.clone());
        }
    }
    (unknown, kn)
}

pub fn run_campaign<C: Campaign>(c: &C, ctx: &Ctx, cases_per_worker: u32) -> Stats {
    let findings = known::load();
    let stop = AtomicBool::new(false);
    let total = Mutex::new(Stats::default());
    std::thread::scope(|scope| {
        for w in 0..ctx.workers {
            let findings = &findings;
            let stop = &stop;
            let total = &total;
            let ctx = ctx.clone();
            scope.spawn(move || {
                crate::simnode::set_thread_role("main");
                let mut cfg = Config::default();
                cfg.cases = cases_per_worker;
                cfg.failure_persistence = None;
                cfg.rng_seed = RngSeed::Fixed(ctx.seed.wrapping_mul(1_000_003).wrapping_add(w as u64 + 1));
                cfg.max_shrink_iters = c.max_shrink_iters();
                cfg.max_shrink_time = 0;
                cfg.verbose = 0;
                let mut runner = TestRunner::new(cfg);
                let stats = std::cell::RefCell::new(Stats::default());
                let failed = std::cell::Cell::new(false);
                // the most recent failing observation: proptest only moves on to a simpler case after a failure,
                // so this is the observation made on the case it finally reports
                let last_seen: std::cell::RefCell<Option<Violation>> = std::cell::RefCell::new(None);
                let strat = c.strategy();
                let res = runner.run(&strat, |case| {
                    if stop.load(Ordering::Relaxed) && !failed.get() {
                        return Ok(());
                    }
                    let rep = c.run_case(&case, w);
                    let (unknown, kn) = triage(findings, &rep);
                    if !failed.get() {
                        let mut st = stats.borrow_mut();
                        st.absorb(&rep);
                        for k in kn {
                            *st.known_hits.entry((k.property, k.signature)).or_insert(0) += 1;
                        }
                    }
                    if let Some(v) = unknown.first() {
                        failed.set(true);
                        *last_seen.borrow_mut() = Some(v.clone());
                        stop.store(true, Ordering::Relaxed);
                        return Err(TestCaseError::fail(format!("{}|{}", v.property, v.signature)));
                    }
                    Ok(())
                });
                let mut st = stats.into_inner();
                if let Err(TestError::Fail(_, minimal)) = res {
                    // re-run the minimal case to get its report
                    let rep = c.run_case(&minimal, w);
                    let (unknown, _) = triage(findings, &rep);
                    let v = unknown.first().cloned().unwrap_or_else(|| match last_seen.borrow().clone() {
                        // a race: what was seen is reported as it was seen, the saved case may need several replays
                        Some(mut seen) => {
                            seen.message = format!("{} [seen on this case, but it did not fail again when re-run once: depends on timing, replay it several times]", seen.message);
                            seen
                        }
                        None => Violation {
                            property: ctx.property.clone(),
                            signature: "unstable".into(),
                            message: "the shrunk case did not fail again when re-run (non-deterministic failure)".into(),
                        },
                    });
                    st.failures.push((v, serde_json::to_value(&minimal).unwrap()));
                } else if let Err(TestError::Abort(r)) = res {
                    eprintln!("worker {w}: proptest aborted: {r}");
                }
                total.lock().unwrap().merge(st);
            });
        }
    });
    total.into_inner().unwrap()
}

pub fn write_replay(check: &str, v: &Violation, case: &Value) -> String {
    let dir = format!("/verif/replays/{}", v.property);
    let _ = std::fs::create_dir_all(&dir);
    let sig: String = v
        .signature
        .chars()
        .map(|c| if c.is_ascii_alphanumeric() { c } else { '_' })
        .take(60)
        .collect();
    let path = format!("{dir}/{check}-{sig}.json");
    let body = serde_json::json!({"check": check, "violation": v, "case": case});
    std::fs::write(&path, serde_json::to_string_pretty(&body).unwrap()).unwrap();
    path
}

/// Prints KNOWN-FINDING / VIOLATION lines, writes replay files, fills and writes the evidence.
/// Returns the process exit code.
pub fn conclude(ctx: &Ctx, check: &str, stats: Stats, mut ev: Evidence, started: Instant) -> i32 {
    let findings = known::load();
    for ((p, s), n) in &stats.known_hits {
        let what = known::is_known(&findings, p, s).map(|f| f.what.clone()).unwrap_or_default();
        println!("KNOWN-FINDING: property={p} {s} — {what} (hit {n} times, each such case was cut short there)");
    }
    let mut code = 0;
    let mut seen = BTreeSet::new();
    for (v, case) in &stats.failures {
        if !seen.insert((v.property.clone(), v.signature.clone())) {
            continue;
        }
        // a libFuzzer finding's replay file is the saved input itself
        let path = match case.get("artifact").and_then(|a| a.as_str()) {
            Some(a) if case.get("fuzz_target").is_some() => a.to_string(),
            _ => write_replay(check, v, case),
        };
        println!("VIOLATION property={} replay={}", v.property, path);
        println!("  signature: {}", v.signature);
        println!("  {}", v.message);
        code = 1;
    }
    ev.property_id = ctx.property.clone();
    ev.tier = ctx.tier.clone();
    ev.seed = ctx.seed;
    ev.evaluations += stats.evaluations;
    ev.distinct_nontrivial += stats.distinct.len() as u64;
    for (k, v) in &stats.classes {
        *ev.classes.entry(k.clone()).or_insert(0) += v;
    }
    ev.extra.insert("nontrivial_cases".into(), serde_json::json!(stats.nontrivial));
    if !stats.counters.is_empty() {
        ev.extra.insert("counters".into(), serde_json::json!(stats.counters));
    }
    if !stats.known_hits.is_empty() {
        let kh: Vec<_> = stats
            .known_hits
            .iter()
            .map(|((p, s), n)| serde_json::json!({"property": p, "signature": s, "cases_cut_short": n}))
            .collect();
        ev.extra.insert("known_findings_hit".into(), serde_json::json!(kh));
    }
    if ev.samples.is_empty() {
        ev.samples = stats.samples.clone();
    } else {
        ev.samples.extend(stats.samples.iter().cloned().take(3));
    }
    ev.violations = stats.failures.len() as i64;
    ev.wall_s = started.elapsed().as_secs_f64();
    ev.write();
    println!(
        "{}: {} cases, {} non-trivial, {} distinct non-trivial, {:.1}s, exit {}",
        check,
        ev.evaluations,
        stats.nontrivial,
        ev.distinct_nontrivial,
        ev.wall_s,
        code
    );
    code
}

/// Replays one saved case (strict: known findings are reported as violations too, with a note).
/// Replay tier: every saved case under `dir` whose file name starts with `prefix` and whose case decodes for this campaign.
pub fn replay_dir<C: Campaign>(c: &C, dir: &str, prefix: &str) -> Stats {
    let mut regress = Stats::default();
    let findings = known::load();
    if let Ok(rd) = std::fs::read_dir(dir) {
        let mut files: Vec<_> = rd.filter_map(|e| e.ok()).map(|e| e.path()).filter(|p| p.extension().map_or(false, |x| x == "json") && p.file_name().map_or(false, |n| n.to_string_lossy().starts_with(prefix))).collect();
        files.sort();
        for f in files {
            let body: Value = match std::fs::read_to_string(&f).ok().and_then(|s| serde_json::from_str(&s).ok()) {
                Some(b) => b,
                None => continue,
            };
            let case: C::Case = match serde_json::from_value(body["case"].clone()) {
                Ok(c) => c,
                Err(_) => continue,
            };
            let rep = c.run_case(&case, 0);
            let (unknown, kn) = triage(&findings, &rep);
            regress.absorb(&rep);
            for k in kn {
                *regress.known_hits.entry((k.property, k.signature)).or_insert(0) += 1;
            }
            if let Some(v) = unknown.first() {
                regress.failures.push((v.clone(), body["case"].clone()));
            }
        }
    }
    regress
}

pub fn replay<C: Campaign>(c: &C, path: &str) -> i32 {
    let body: Value = serde_json::from_str(&std::fs::read_to_string(path).expect("cannot read replay file")).expect("bad replay json");
    let case: C::Case = serde_json::from_value(body["case"].clone()).expect("replay case does not match this check");
    let rep = c.run_case(&case, 0);
    let findings = known::load();
    println!("case: {}", serde_json::to_string(&case).unwrap());
    if rep.violations.is_empty() {
        println!("replay: no violation");
        return 0;
    }
    for v in &rep.violations {
        let k = known::is_known(&findings, &v.property, &v.signature).is_some();
        println!(
            "{} property={} replay={}\n  signature: {}\n  {}",
            if k { "KNOWN-FINDING:" } else { "VIOLATION" },
            v.property,
            path,
            v.signature,
            v.message
        );
    }
    1
}

/// index mapping that shrinks well: i in 0..=65535 -> 0..len
pub fn pick(i: u16, len: usize) -> usize {
    ((i as usize) * len) >> 16
}

pub fn boxed<S: Strategy + 'static>(s: S) -> BoxedStrategy<S::Value> {
    s.boxed()
}

/// Exhaustive enumeration: runs `f(i)` for every i in 0..total on all workers. `f` returns the case
/// (as JSON, for the replay file) and its report. Stops at the first unknown violation.
pub fn run_indexed(
    ctx: &Ctx,
    total: u64,
    f: &(dyn Fn(u64) -> (Value, CaseReport) + Sync),
) -> Stats {
    use std::sync::atomic::AtomicU64;
    let findings = known::load();
    let next = AtomicU64::new(0);
    let stop = AtomicBool::new(false);
    let totals = Mutex::new(Stats::default());
    std::thread::scope(|scope| {
        for _w in 0..ctx.workers {
            let findings = &findings;
            let next = &next;
            let stop = &stop;
            let totals = &totals;
            scope.spawn(move || {
                let mut st = Stats::default();
                loop {
                    let start = next.fetch_add(256, Ordering::Relaxed);
                    if start >= total || stop.load(Ordering::Relaxed) {
                        break;
                    }
                    for i in start..(start + 256).min(total) {
                        let (case, rep) = f(i);
                        let (unknown, kn) = triage(findings, &rep);
                        st.absorb(&rep);
                        for k in kn {
                            *st.known_hits.entry((k.property, k.signature)).or_insert(0) += 1;
                        }
                        if let Some(v) = unknown.first() {
                            st.failures.push((v.clone(), case));
                            stop.store(true, Ordering::Relaxed);
                            break;
                        }
                    }
                }
                totals.lock().unwrap().merge(st);
            });
        }
    });
    totals.into_inner().unwrap()
}

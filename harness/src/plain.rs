//! Model-free execution of single operations on (simnode, tower), with replies normalised to strings.
//! Used by the schedule-controlled checks (C10, C11) and the outage check (C12).

use std::collections::BTreeSet;
use std::sync::Arc;

use bitcoin::{Transaction, Txid};
use teos::api::internal::InternalAPI;
use teos::protos::public_tower_services_server::PublicTowerServices;
use teos_common::appointment::Appointment;
use teos_common::protos as common_msgs;
use tonic::Request;

use crate::model::Locator;
use crate::ops::*;
use crate::simnode::{txs, Call, Node, Verdict};
use crate::towerbox::{Snapshot, Tower};
use crate::world::{blob_of, make_sig, tx_of, user_pk, ReqKind, SALT};

/// Minimal executor for futures that never really wait (the tower's API futures are immediately ready).
pub fn block_on<F: std::future::Future>(f: F) -> F::Output {
    use std::task::{Context, Poll, RawWaker, RawWakerVTable, Waker};
    fn noop(_: *const ()) {}
    fn clone(_: *const ()) -> RawWaker {
        RawWaker::new(std::ptr::null(), &VTABLE)
    }
    static VTABLE: RawWakerVTable = RawWakerVTable::new(clone, noop, noop, noop);
    let waker = unsafe { Waker::from_raw(RawWaker::new(std::ptr::null(), &VTABLE)) };
    let mut cx = Context::from_waker(&waker);
    let mut f = Box::pin(f);
    loop {
        if let Poll::Ready(v) = f.as_mut().poll(&mut cx) {
            return v;
        }
        std::thread::yield_now();
    }
}

fn status(s: &tonic::Status) -> String {
    let m = s.message();
    let class = if m.contains("expired") { "expired" } else { "" };
    format!("err({:?}{})", s.code(), class)
}

/// Executes an API op through the tonic service trait (what the gRPC server calls). Returns the normalised reply.
pub fn api_call(api: &Arc<InternalAPI>, op: &Op) -> String {
    match op {
        Op::Register { u } => {
            let r = block_on(PublicTowerServices::register(api, Request::new(common_msgs::RegisterRequest { user_id: user_pk(*u).serialize().to_vec() })));
            match r {
                Ok(r) => {
                    let r = r.into_inner();
                    format!("registered(slots={},start={},expiry={})", r.available_slots, r.subscription_start, r.subscription_expiry)
                }
                Err(s) => status(&s),
            }
        }
        Op::Add { u, chan, dvar, blob, delay, sig } => {
            let dispute = txs::dispute(SALT, *chan as u32, *dvar as u32);
            let locator = Locator::new(dispute.compute_txid());
            let blob_bytes = blob_of(*blob, &dispute);
            let appt = Appointment::new(locator.real(), blob_bytes.clone(), *delay);
            let sigs = make_sig(*sig, ReqKind::Add, &appt.to_vec(), *u, &locator);
            let r = block_on(PublicTowerServices::add_appointment(
                api,
                Request::new(common_msgs::AddAppointmentRequest {
                    appointment: Some(common_msgs::Appointment { locator: locator.to_vec(), encrypted_blob: blob_bytes, to_self_delay: *delay }),
                    signature: sigs,
                }),
            ));
            match r {
                Ok(r) => {
                    let r = r.into_inner();
                    format!("accepted(start={},slots={},expiry={})", r.start_block, r.available_slots, r.subscription_expiry)
                }
                Err(s) => status(&s),
            }
        }
        Op::Get { u, chan, dvar, sig } => {
            let dispute = txs::dispute(SALT, *chan as u32, *dvar as u32);
            let locator = Locator::new(dispute.compute_txid());
            let msg = format!("get appointment {locator}").into_bytes();
            let sigs = make_sig(*sig, ReqKind::Get, &msg, *u, &locator);
            let r = block_on(PublicTowerServices::get_appointment(api, Request::new(common_msgs::GetAppointmentRequest { locator: locator.to_vec(), signature: sigs })));
            match r {
                Ok(r) => {
                    let r = r.into_inner();
                    use common_msgs::appointment_data::AppointmentData as AD;
                    match r.appointment_data.and_then(|d| d.appointment_data) {
                        Some(AD::Tracker(t)) => format!("responded(status={},penalty={})", r.status, hex::encode(&t.penalty_txid[..4])),
                        Some(AD::Appointment(a)) => format!("watched(status={},blob_len={},delay={})", r.status, a.encrypted_blob.len(), a.to_self_delay),
                        None => "empty".into(),
                    }
                }
                Err(s) => status(&s),
            }
        }
        Op::SubInfo { u, sig } => {
            let msg = b"get subscription info".to_vec();
            let sigs = make_sig(*sig, ReqKind::SubInfo, &msg, *u, &Locator::new(txs::dispute(SALT, 0, 0).compute_txid()));
            let r = block_on(PublicTowerServices::get_subscription_info(api, Request::new(common_msgs::GetSubscriptionInfoRequest { signature: sigs })));
            match r {
                Ok(r) => {
                    let r = r.into_inner();
                    let mut l: Vec<String> = r.locators.iter().map(|x| hex::encode(&x[..4])).collect();
                    l.sort();
                    format!("subscription(slots={},expiry={},locators={:?})", r.available_slots, r.subscription_expiry, l)
                }
                Err(s) => status(&s),
            }
        }
        other => panic!("not an API op: {other:?}"),
    }
}

pub fn mine_one(node: &Node, tower: Option<&Tower>, take: Take, extra: &[Transaction]) {
    let tracked: BTreeSet<Txid> = match tower {
        Some(t) => t
            .snapshot()
            .trackers
            .values()
            .filter_map(|r| bitcoin::consensus::deserialize::<Transaction>(&r.penalty_tx).ok())
            .map(|t| t.compute_txid())
            .collect(),
        None => BTreeSet::new(),
    };
    let mut st = node.lock();
    match take {
        Take::All => st.mine(&|_, _| true, extra),
        Take::None => st.mine(&|_, _| false, extra),
        Take::NoPenalties => st.mine(&|_, t| !tracked.contains(&t.compute_txid()), extra),
    };
}

/// Executes a node-side op (broadcast / mine / reorg / policy). Returns false if `op` is not a node op.
pub fn node_op(node: &Node, tower: Option<&Tower>, op: &Op) -> bool {
    match op {
        Op::Broadcast(r) => {
            let _ = node.lock().send_raw_transaction(&tx_of(*r));
        }
        Op::Mine { take, extra } => {
            let extra: Vec<Transaction> = extra.iter().map(|r| tx_of(*r)).collect();
            mine_one(node, tower, *take, &extra);
        }
        Op::MineMany { n, take } => {
            for _ in 0..*n {
                mine_one(node, tower, *take, &[]);
            }
        }
        Op::Reorg { depth, extra, first, later_at, later, evict } => {
            let depth = (*depth as usize).min(node.lock().active.len().saturating_sub(3));
            let n_new = depth + *extra as usize;
            let mut contents: Vec<Vec<Transaction>> = vec![vec![]; n_new];
            contents[0] = first.iter().map(|r| tx_of(*r)).collect();
            let at = (1 + *later_at as usize).min(n_new - 1);
            contents[at].extend(later.iter().map(|r| tx_of(*r)));
            node.lock().reorg(depth, &contents, *evict);
        }
        Op::SetPolicy { tx, code } => {
            let txid = tx_of(*tx).compute_txid();
            let mut st = node.lock();
            match code {
                Some(c) => {
                    st.policy.insert(txid, *c);
                }
                None => {
                    st.policy.remove(&txid);
                }
            }
        }
        _ => return false,
    }
    true
}

/// Sequential execution of a setup op (API, node or poll) on an uncontrolled thread.
pub fn setup_op(node: &Arc<Node>, tower: &mut Tower, op: &Op) -> Result<String, String> {
    if node_op(node, Some(tower), op) {
        return Ok("node".into());
    }
    match op {
        Op::Poll => tower.poll().map(|_| "polled".into()),
        Op::Restart | Op::PollFail { .. } => Err("not supported in setups".into()),
        api => Ok(api_call(&tower.api, api)),
    }
}

/// The tower's submissions to the node since `from`: sorted (txid, verdict) list.
pub fn submissions(node: &Node, from: usize) -> Vec<String> {
    let mut v: Vec<String> = node
        .log_since(from)
        .iter()
        .filter_map(|e| match (&e.call, &e.verdict) {
            (Call::SendRawTransaction(t), v) if *v != Verdict::TransportError => Some(format!("{}:{:?}", &t.to_string()[..8], v)),
            _ => None,
        })
        .collect();
    v.sort();
    v
}

/// Digest of the store for outcome comparison. Heights that merely record *when* something happened relative to the
/// chain event in progress (subscription start/expiry of a user registered mid-event, start_block, "in mempool since")
/// are momentary readings and left out; what is held, for whom, with which balance and confirmation is kept.
pub fn snapshot_digest(s: &Snapshot) -> (Vec<String>, Vec<String>, Vec<String>) {
    let users = s.users.iter().map(|(k, v)| format!("{}:slots={}", hex::encode(&k[..4]), v.0)).collect();
    let appts = s
        .appointments
        .iter()
        .map(|(k, r)| format!("{}:len{}:delay{}:sig{}", hex::encode(&k[..4]), r.blob.len(), r.delay, &r.user_signature[..6.min(r.user_signature.len())]))
        .collect();
    let trackers = s.trackers.iter().map(|(k, r)| if r.confirmed { format!("{}:confirmed@{}", hex::encode(&k[..4]), r.height) } else { format!("{}:unconfirmed", hex::encode(&k[..4])) }).collect();
    (users, appts, trackers)
}

//! Panic hook: remembers "file:line: message" of the last panic of the current thread, quietly.
use std::cell::RefCell;
use std::sync::atomic::{AtomicBool, AtomicUsize, Ordering};

thread_local! { static LAST: RefCell<Option<String>> = RefCell::new(None); }
static INSTALLED: AtomicBool = AtomicBool::new(false);
pub static PANICS: AtomicUsize = AtomicUsize::new(0);
pub static VERBOSE: AtomicBool = AtomicBool::new(false);

/// Private payload used by the harness itself to unwind a thread on purpose (crash points, scheduler aborts).
pub struct HarnessUnwind(pub &'static str);

pub fn install() {
    if INSTALLED.swap(true, Ordering::SeqCst) {
        return;
    }
    std::panic::set_hook(Box::new(|info| {
        if info.payload().downcast_ref::<HarnessUnwind>().is_some() {
            return;
        }
        let msg = if let Some(s) = info.payload().downcast_ref::<&str>() {
            s.to_string()
        } else if let Some(s) = info.payload().downcast_ref::<String>() {
            s.clone()
        } else {
            "<non-string>".to_string()
        };
        let loc = info
            .location()
            .map(|l| {
                let f = l.file();
                let f = f.strip_prefix("/repo/").unwrap_or(f);
                format!("{}:{}", f, l.line())
            })
            .unwrap_or_else(|| "?".into());
        let first = msg.lines().next().unwrap_or("").chars().take(160).collect::<String>();
        let s = format!("panic@{loc}: {first}");
        PANICS.fetch_add(1, Ordering::SeqCst);
        if VERBOSE.load(Ordering::SeqCst) {
            eprintln!("[hook] {s}");
        }
        LAST.with(|l| *l.borrow_mut() = Some(s));
    }));
}
pub fn clear() {
    LAST.with(|l| *l.borrow_mut() = None);
}
pub fn last() -> Option<String> {
    LAST.with(|l| l.borrow().clone())
}
pub fn last_or(default: String) -> String {
    last().unwrap_or(format!("panic@?: {default}"))
}
/// Root-cause key of a panic string: location + message with digits/hex squeezed out.
pub fn signature(p: &str) -> String {
    let mut out = String::new();
    let (loc, msg) = match p.split_once(": ") {
        Some((a, b)) => (a, b),
        None => (p, ""),
    };
    // drop the line number so that unrelated edits above do not change the key
    let loc = loc.rsplit_once(':').map(|(f, _)| f).unwrap_or(loc);
    out.push_str(loc);
    out.push(':');
    let mut prev_d = false;
    for c in msg.chars().take(70) {
        if c.is_ascii_digit() {
            if !prev_d {
                out.push('#');
            }
            prev_d = true;
        } else {
            prev_d = false;
            out.push(c);
        }
    }
    out
}

//! Operation alphabet of the tower histories and the proptest strategies (profiles) generating them.

use proptest::prelude::*;
use serde::{Deserialize, Serialize};

use crate::towerbox::TowerCfg;

pub const MAX_USERS: usize = 4;
/// index of the key that never registers
pub const INTRUDER: u8 = 9;
/// total blob lengths (ciphertext incl. 16-byte tag) a valid penalty can be padded to
pub const VALID_LENS: [usize; 9] = [0, 2047, 2048, 2049, 4095, 4096, 4097, 6000, 1500];
pub const GARBLED_LENS: [usize; 9] = [1, 15, 16, 17, 100, 2047, 2048, 2049, 4097];

#[derive(Debug, Clone, Copy, Serialize, Deserialize, PartialEq, Eq, Hash)]
pub enum TxRef {
    /// dispute (revoked commitment) of channel, variant (variants of one channel conflict)
    Dispute(u8, u8),
    /// penalty of (channel, dispute variant) padded to VALID_LENS[len], variant
    Penalty(u8, u8, u8, u8),
    /// third-party spend of the dispute output the penalties spend
    Conflict(u8, u8),
    Noise(u8),
}

#[derive(Debug, Clone, Copy, Serialize, Deserialize, PartialEq, Eq)]
pub enum BlobKind {
    /// encrypt(penalty(len, var), dispute txid)
    Valid { len: u8, var: u8 },
    /// bytes that do not authenticate
    Garbled { len: u8 },
    Empty,
    /// a valid penalty encrypted under another txid
    WrongKey,
    /// authenticates and decrypts, but to bytes that are not a transaction
    NonTx,
    /// decrypts to an unrelated, well-formed transaction
    Foreign(u8),
}

#[derive(Debug, Clone, Copy, Serialize, Deserialize, PartialEq, Eq)]
pub enum SigKind {
    Good,
    /// signed by this other key index (a registered user, or the INTRUDER)
    By(u8),
    /// a valid signature by the right user, over the message of another request kind / other content
    OtherMessage(u8),
    Truncated(u8),
    Extended,
    /// one zbase32 symbol replaced by another with a different value
    Symbol(u8, u8),
    NonZbase32,
    Empty,
    /// same signature, letters upper-cased (another spelling of the same value: must still work)
    UpperCase,
}

#[derive(Debug, Clone, Copy, Serialize, Deserialize, PartialEq, Eq)]
pub enum Take {
    All,
    None,
    /// everything except the tower's own submissions of tracked penalties
    NoPenalties,
}

#[derive(Debug, Clone, Serialize, Deserialize, PartialEq, Eq)]
pub enum Op {
    Register { u: u8 },
    Add { u: u8, chan: u8, dvar: u8, blob: BlobKind, delay: u32, sig: SigKind },
    Get { u: u8, chan: u8, dvar: u8, sig: SigKind },
    SubInfo { u: u8, sig: SigKind },
    /// somebody hands a transaction to the node directly
    Broadcast(TxRef),
    /// mine one block: which mempool txs to take + transactions the miner adds itself
    Mine { take: Take, extra: Vec<TxRef> },
    /// mine n blocks taking the whole mempool (n is 1..=120)
    MineMany { n: u8, take: Take },
    /// replace the last `depth` blocks by depth+extra new ones; `first` goes into the first new block,
    /// `later` into the (1 + later_at)-th
    Reorg {
        depth: u8,
        extra: u8,
        first: Vec<TxRef>,
        later_at: u8,
        later: Vec<TxRef>,
        /// the transactions of the disconnected blocks do not return to the node's mempool (a node restarted without its
        /// mempool, eviction under pressure): whoever wants them back in has to send them again
        #[serde(default)]
        evict: bool,
    },
    Poll,
    /// a poll during which the n-th block download fails (persistent or transient error)
    PollFail { nth: u8, persistent: bool },
    /// make the node refuse (code) or stop refusing (None) a transaction on policy grounds
    SetPolicy { tx: TxRef, code: Option<i32> },
    Restart,
}

#[derive(Debug, Clone, Serialize, Deserialize)]
pub struct History {
    pub cfg: TowerCfg,
    pub users: u8,
    pub chans: u8,
    pub txindex: bool,
    pub ops: Vec<Op>,
}

#[derive(Debug, Clone, Copy, PartialEq, Eq)]
pub enum Profile {
    Breach,
    Chain,
    Auth,
    Slots,
    Expiry,
    Lifecycle,
    Receipts,
    Crash,
}

fn txref_p(p: Profile, chans: u8) -> BoxedStrategy<TxRef> {
    if p == Profile::Crash {
        // no third-party penalties / conflicting spends: who wins such a race depends on when the tower responds,
        // and a crash legitimately delays that
        return prop_oneof![4 => (0..chans).prop_map(|c| TxRef::Dispute(c, 0)), 1 => (0u8..4).prop_map(TxRef::Noise)].boxed();
    }
    txref(chans)
}

fn txref(chans: u8) -> BoxedStrategy<TxRef> {
    prop_oneof![
        4 => (0..chans, 0u8..2).prop_map(|(c, v)| TxRef::Dispute(c, v)),
        3 => (0..chans, 0u8..2, prop_oneof![Just(0u8), 0u8..9], 0u8..2).prop_map(|(c, d, l, v)| TxRef::Penalty(c, d, l, v)),
        2 => (0..chans, 0u8..2).prop_map(|(c, v)| TxRef::Conflict(c, v)),
        1 => (0u8..4).prop_map(TxRef::Noise),
    ]
    .boxed()
}

fn blob(p: Profile) -> BoxedStrategy<BlobKind> {
    let valid = (prop_oneof![3 => Just(0u8), 2 => 0u8..9], prop_oneof![4 => Just(0u8), 1 => Just(1u8)])
        .prop_map(|(len, var)| BlobKind::Valid { len, var });
    match p {
        Profile::Slots => prop_oneof![
            6 => (0u8..9, 0u8..2).prop_map(|(len, var)| BlobKind::Valid { len, var }),
            4 => (0u8..9).prop_map(|len| BlobKind::Garbled { len }),
            1 => Just(BlobKind::Empty),
            1 => Just(BlobKind::WrongKey),
        ]
        .boxed(),
        _ => prop_oneof![
            10 => valid,
            3 => (0u8..9).prop_map(|len| BlobKind::Garbled { len }),
            1 => Just(BlobKind::Empty),
            1 => Just(BlobKind::WrongKey),
            1 => Just(BlobKind::NonTx),
            1 => (0u8..4).prop_map(BlobKind::Foreign),
        ]
        .boxed(),
    }
}

fn sig(p: Profile, users: u8) -> BoxedStrategy<SigKind> {
    let bad = prop_oneof![
        3 => (0..users).prop_map(SigKind::By),
        2 => Just(SigKind::By(INTRUDER)),
        3 => (0u8..4).prop_map(SigKind::OtherMessage),
        2 => (1u8..104).prop_map(SigKind::Truncated),
        1 => Just(SigKind::Extended),
        3 => (0u8..104, 1u8..32).prop_map(|(a, b)| SigKind::Symbol(a, b)),
        1 => Just(SigKind::NonZbase32),
        1 => Just(SigKind::Empty),
        1 => Just(SigKind::UpperCase),
    ];
    match p {
        Profile::Auth => prop_oneof![5 => Just(SigKind::Good), 6 => bad].boxed(),
        _ => prop_oneof![30 => Just(SigKind::Good), 1 => bad].boxed(),
    }
}

fn take() -> BoxedStrategy<Take> {
    prop_oneof![5 => Just(Take::All), 1 => Just(Take::None), 2 => Just(Take::NoPenalties)].boxed()
}

fn op(p: Profile, users: u8, chans: u8) -> BoxedStrategy<Op> {
    let user = || prop_oneof![8 => 0..users, 1 => Just(INTRUDER)];
    let register = (0..users).prop_map(|u| Op::Register { u });
    let dvar = if p == Profile::Crash { Just(0u8).boxed() } else { prop_oneof![6 => Just(0u8), 1 => Just(1u8)].boxed() };
    let add = (user(), 0..chans, dvar, blob(p), prop_oneof![Just(42u32), any::<u32>()], sig(p, users))
        .prop_map(|(u, chan, dvar, blob, delay, sig)| Op::Add { u, chan, dvar, blob, delay, sig });
    let get = (user(), 0..chans, prop_oneof![6 => Just(0u8), 1 => Just(1u8)], sig(p, users)).prop_map(|(u, chan, dvar, sig)| Op::Get { u, chan, dvar, sig });
    let subinfo = (user(), sig(p, users)).prop_map(|(u, sig)| Op::SubInfo { u, sig });
    let broadcast = txref_p(p, chans).prop_map(Op::Broadcast);
    // (crash profile: miners take everything, so a response delayed by a crash confirms at most a few blocks later)
    let take = move || if p == Profile::Crash { Just(Take::All).boxed() } else { take() };
    let mine = (take(), proptest::collection::vec(txref_p(p, chans), 0..4)).prop_map(|(take, extra)| Op::Mine { take, extra });
    let mine_many = |max: u8| (1u8..=max, take()).prop_map(|(n, take)| Op::MineMany { n, take });
    let reorg = |maxd: u8| {
        (
            prop_oneof![6 => 1u8..=3, 3 => 1u8..=maxd],
            1u8..=3,
            proptest::collection::vec(txref_p(p, chans), 0..3),
            0u8..4,
            proptest::collection::vec(txref_p(p, chans), 0..3),
            // lossy: the node does not take the disconnected blocks' transactions back into its mempool
            match p {
                Profile::Crash => proptest::bool::weighted(0.4).boxed(),
                Profile::Breach | Profile::Chain | Profile::Lifecycle => proptest::bool::weighted(0.15).boxed(),
                _ => Just(false).boxed(),
            },
        )
            .prop_map(|(depth, extra, first, later_at, later, evict)| Op::Reorg { depth, extra, first, later_at, later, evict })
    };
    let policy = (txref_p(p, chans), prop_oneof![3 => Just(Some(-26)), 1 => Just(Some(-25)), 1 => Just(Some(-1)), 1 => Just(Some(-28)), 1 => Just(Some(-10)), 1 => Just(Some(-22)), 3 => Just(None)])
        .prop_map(|(tx, code)| Op::SetPolicy { tx, code });
    match p {
        Profile::Breach | Profile::Lifecycle | Profile::Receipts => prop_oneof![
            3 => register,
            12 => add,
            4 => get,
            1 => subinfo,
            4 => broadcast,
            8 => mine,
            2 => mine_many(8),
            3 => reorg(8),
            10 => Just(Op::Poll),
            2 => policy,
            1 => Just(Op::Restart),
        ]
        .boxed(),
        Profile::Crash => prop_oneof![
            2 => register,
            12 => add,
            3 => broadcast,
            8 => mine,
            2 => mine_many(8),
            1 => mine_many(110),
            3 => reorg(6),
            10 => Just(Op::Poll),
            2 => (1u8..5, any::<bool>()).prop_map(|(nth, persistent)| Op::PollFail { nth, persistent }),
            1 => policy,
            3 => Just(Op::Restart),
        ]
        .boxed(),
        Profile::Chain => prop_oneof![
            1 => register,
            5 => add,
            2 => get,
            3 => broadcast,
            8 => mine,
            8 => mine_many(120),
            6 => reorg(12),
            12 => Just(Op::Poll),
            2 => policy,
            1 => Just(Op::Restart),
        ]
        .boxed(),
        Profile::Auth => prop_oneof![
            3 => register,
            10 => add,
            8 => get,
            5 => subinfo,
            2 => broadcast,
            3 => mine,
            1 => mine_many(5),
            1 => reorg(3),
            4 => Just(Op::Poll),
        ]
        .boxed(),
        Profile::Slots => prop_oneof![
            4 => register,
            14 => add,
            2 => get,
            3 => subinfo,
            3 => broadcast,
            5 => mine,
            3 => mine_many(120),
            1 => reorg(4),
            8 => Just(Op::Poll),
            1 => policy,
            2 => Just(Op::Restart),
        ]
        .boxed(),
        Profile::Expiry => prop_oneof![
            6 => register,
            6 => add,
            4 => get,
            4 => subinfo,
            2 => broadcast,
            6 => mine,
            4 => mine_many(5),
            4 => reorg(6),
            10 => Just(Op::Poll),
            1 => Just(Op::Restart),
        ]
        .boxed(),
    }
}

fn cfg(p: Profile) -> BoxedStrategy<TowerCfg> {
    match p {
        Profile::Expiry => {
            let v = || prop_oneof![Just(0u32), Just(1), Just(2), Just(3), Just(5), Just(10), Just(50)];
            // a slots setting that makes the first renewal overflow (the documented "maximum slots reached" refusal)
            let slots = prop_oneof![12 => v(), 1 => Just(1u32 << 31), 1 => Just(u32::MAX)];
            // an operator's "never expires": the neighbourhood of u32::MAX
            let duration = prop_oneof![24 => v(), 1 => Just(u32::MAX), 1 => Just(u32::MAX - 107)];
            let grace = prop_oneof![30 => v(), 1 => Just(u32::MAX)];
            (slots, duration, grace).prop_map(|(slots, duration, grace)| TowerCfg { slots, duration, grace }).boxed()
        }
        Profile::Slots => (prop_oneof![Just(1u32), Just(2), Just(3), Just(5), Just(20)], Just(2000u32), Just(6u32))
            .prop_map(|(slots, duration, grace)| TowerCfg { slots, duration, grace })
            .boxed(),
        Profile::Chain => Just(TowerCfg { slots: 10, duration: 5000, grace: 6 }).boxed(),
        // ample slots: a crash may cost the in-flight request's slots, which must not decide later requests
        Profile::Crash => prop_oneof![4 => Just(TowerCfg { slots: 100, duration: 5000, grace: 6 }), 1 => Just(TowerCfg { slots: 100, duration: 12, grace: 2 })].boxed(),
        _ => prop_oneof![
            4 => Just(TowerCfg { slots: 10, duration: 1000, grace: 6 }),
            1 => (1u32..6, 3u32..30, 0u32..4).prop_map(|(slots, duration, grace)| TowerCfg { slots, duration, grace }),
        ]
        .boxed(),
    }
}

pub fn history(p: Profile, max_ops: usize) -> BoxedStrategy<History> {
    let (umax, cmax) = match p {
        Profile::Chain => (2u8, 3u8),
        Profile::Expiry => (3, 3),
        Profile::Crash => (2, 3),
        _ => (MAX_USERS as u8, 5u8),
    };
    (cfg(p), 1..=umax, 1..=cmax, proptest::bool::weighted(0.15))
        .prop_flat_map(move |(cfg, users, chans, txindex)| {
            // every history starts by registering user 0, so that few cases are wasted on unregistered users
            // scripted openings, so that most histories reach the interesting states:
            //   0: just the registration; 1: + an appointment of user 0 on channel 0;
            //   2: + its dispute mined and processed (a responded appointment to start from)
            let opening = match p {
                // 3: a responded appointment on EVERY channel, all penalties confirmed in one block (a reorg then hits several
                //    trackers at once)
                Profile::Chain => prop_oneof![1 => Just(0u8), 2 => Just(1u8), 5 => Just(2u8), 2 => Just(3u8)].boxed(),
                Profile::Expiry | Profile::Auth => prop_oneof![3 => Just(0u8), 2 => Just(1u8)].boxed(),
                _ => prop_oneof![3 => Just(0u8), 4 => Just(1u8), 2 => Just(2u8)].boxed(),
            };
            (proptest::collection::vec(op(p, users, chans), 1..max_ops), opening, blob(p)).prop_map(move |(mut ops, opening, first_blob)| {
                let mut pre = vec![Op::Register { u: 0 }];
                if opening == 3 {
                    pre.push(Op::Mine { take: Take::All, extra: (0..chans).map(|c| TxRef::Dispute(c, 0)).collect() });
                    pre.push(Op::Poll);
                    for c in 0..chans {
                        pre.push(Op::Add { u: 0, chan: c, dvar: 0, blob: BlobKind::Valid { len: 0, var: 0 }, delay: 42, sig: SigKind::Good });
                    }
                    pre.push(Op::Mine { take: Take::All, extra: vec![] });
                    pre.push(Op::Poll);
                    pre.extend(ops.drain(..));
                    return History { cfg, users, chans, txindex, ops: pre };
                }
                if opening >= 1 {
                    let b = if opening == 2 { BlobKind::Valid { len: 0, var: 0 } } else { first_blob };
                    pre.push(Op::Add { u: 0, chan: 0, dvar: 0, blob: b, delay: 42, sig: SigKind::Good });
                }
                if opening == 2 {
                    pre.push(Op::Mine { take: Take::All, extra: vec![TxRef::Dispute(0, 0)] });
                    pre.push(Op::Poll);
                }
                pre.extend(ops.drain(..));
                History { cfg, users, chans, txindex, ops: pre }
            })
        })
        .boxed()
}

//! The reference tower: deliberately naive maps + the rules of DESIGN.md Appendix B.
//!
//! The model consumes the same operations as the real tower and, for node verdicts, the RPC log
//! segment the tower produced while handling the operation (so it is independent of call order).
//! It yields expected replies, the expected abstract store and violations of per-block obligations.

use std::collections::{BTreeMap, BTreeSet, HashMap, VecDeque};

use bitcoin::consensus;
use bitcoin::hashes::Hash;
use bitcoin::{BlockHash, Transaction, Txid};

use teos_common::cryptography;

use crate::runner::Violation;
use crate::simnode::{Call, RpcEvent, Verdict};
use crate::towerbox::TowerCfg;

pub const SLOT: usize = 2048;

/// Locator with an ordering (teos_common's has none): first 16 bytes of a txid.
#[derive(Clone, Copy, PartialEq, Eq, PartialOrd, Ord, Hash, Debug)]
pub struct Locator(pub [u8; 16]);
impl Locator {
    pub fn new(txid: Txid) -> Self {
        let mut b = [0u8; 16];
        b.copy_from_slice(&txid.to_byte_array()[..16]);
        Locator(b)
    }
    pub fn to_vec(&self) -> Vec<u8> {
        self.0.to_vec()
    }
    pub fn from_slice(d: &[u8]) -> Result<Self, ()> {
        if d.len() != 16 {
            return Err(());
        }
        let mut b = [0u8; 16];
        b.copy_from_slice(d);
        Ok(Locator(b))
    }
    pub fn real(&self) -> teos_common::appointment::Locator {
        teos_common::appointment::Locator::from_slice(&self.0).unwrap()
    }
}
impl std::fmt::Display for Locator {
    fn fmt(&self, f: &mut std::fmt::Formatter) -> std::fmt::Result {
        write!(f, "{}", hex::encode(self.0))
    }
}

/// Slot count the property promises: ceil(len/2048), never less than one.
pub fn spec_slots(len: usize) -> u32 {
    std::cmp::max(1, (len + SLOT - 1) / SLOT) as u32
}

#[derive(Debug, Clone, PartialEq, Eq)]
pub struct MUser {
    pub avail: u32,
    pub start: u32,
    pub expiry: u32,
    pub granted: u64,
    pub forfeited: u64,
}

#[derive(Debug, Clone, PartialEq, Eq)]
pub struct MAppt {
    pub blob: Vec<u8>,
    pub delay: u32,
    pub sig: String,
    pub start_block: u32,
}

#[derive(Debug, Clone, Copy, PartialEq, Eq)]
pub enum MStatus {
    Conf(u32),
    Unconf,
}

#[derive(Debug, Clone, PartialEq, Eq)]
pub struct MTracker {
    pub dispute: Transaction,
    pub penalty: Transaction,
    pub status: MStatus,
    /// height of the last block in which the penalty was (re)submitted / seen in mempool
    pub last_submit: u32,
    /// the tower's own "in mempool since" book-keeping, adopted from its database after every
    /// operation; only used to tell which of several trackers sharing one penalty were re-sent
    pub since: Option<u32>,
}

pub type Key = (usize, Locator);

#[derive(Debug, Clone)]
pub struct VBlock {
    pub hash: BlockHash,
    pub prev: BlockHash,
    pub height: u32,
    pub txs: Vec<Transaction>,
}

/// Tower RPC calls of one operation / one block, consumed by the model's expectations.
pub struct Segment {
    pub events: Vec<RpcEvent>,
    pub used: Vec<bool>,
}

impl Segment {
    pub fn new(events: Vec<RpcEvent>) -> Self {
        let events: Vec<RpcEvent> = events
            .into_iter()
            .filter(|e| matches!(e.call, Call::SendRawTransaction(_) | Call::GetRawTransaction(_)))
            .collect();
        let used = events.iter().map(|e| e.verdict == Verdict::TransportError).collect();
        Segment { events, used }
    }
    pub fn take_send(&mut self, txid: &Txid) -> Option<Verdict> {
        for (i, e) in self.events.iter().enumerate() {
            if !self.used[i] && e.call == Call::SendRawTransaction(*txid) {
                self.used[i] = true;
                return Some(e.verdict.clone());
            }
        }
        None
    }
    pub fn take_getraw(&mut self, txid: &Txid) -> Option<Verdict> {
        for (i, e) in self.events.iter().enumerate() {
            if !self.used[i] && e.call == Call::GetRawTransaction(*txid) {
                self.used[i] = true;
                return Some(e.verdict.clone());
            }
        }
        None
    }
    pub fn unused(&self) -> Vec<&RpcEvent> {
        self.events.iter().zip(&self.used).filter(|(_, u)| !**u).map(|(e, _)| e).collect()
    }
}

#[derive(Debug, Clone, PartialEq)]
pub enum Reply<T> {
    Ok(T),
    /// gRPC code name + substring the message must contain
    Err(&'static str, String),
}

#[derive(Debug, Clone, PartialEq)]
pub struct AddOk {
    pub start_block: u32,
    pub avail: u32,
    pub expiry: u32,
}

#[derive(Debug, Clone, PartialEq)]
pub enum GetOk {
    Appointment { locator: Locator, blob: Vec<u8>, delay: u32 },
    Tracker { dispute_txid: Txid, penalty_txid: Txid, penalty_raw: Vec<u8> },
}

pub struct Model {
    pub cfg: TowerCfg,
    pub gk_height: u32,
    pub w_height: u32,
    pub carrier_height: u32,
    pub users: BTreeMap<usize, MUser>,
    pub appts: BTreeMap<Key, MAppt>,
    pub trackers: BTreeMap<Key, MTracker>,
    /// the tower's view of the active chain (everything it was given, oldest first)
    pub view: Vec<VBlock>,
    /// what the 6-block and 100-block look-ups hold (indices into `view` are not stable, so hashes)
    pub w_cache: VecDeque<BlockHash>,
    pub r_cache: VecDeque<BlockHash>,
    pub reorged: BTreeSet<Key>,
    pub memo: HashMap<Txid, Verdict>,
    /// keys whose outcome in the current operation is left open by the properties (-27 verdict)
    /// keys for which the properties leave open whether a tracker is created (-27 verdict at trigger time); the appointment must stay
    pub tracker_optional: BTreeSet<Key>,
    /// keys that may legitimately have been dropped (without refund) or kept in this operation
    pub maybe_dropped: BTreeSet<Key>,
    /// (key, property) of every model mutation in the current operation
    pub touched: Vec<(Key, &'static str)>,
    pub touched_users: Vec<(usize, &'static str)>,
    pub violations: Vec<Violation>,
    /// trackers created in the current operation (for the "node has the penalty" check)
    pub new_trackers: Vec<Key>,
    pub stats: ModelStats,
}

#[derive(Debug, Default, Clone)]
pub struct ModelStats {
    pub obligations: u64,
    pub trig_block: u64,
    pub trig_accept: u64,
    pub invalid_drops: u64,
    pub rejected_drops: u64,
    pub unspecified: u64,
    pub in_index: u64,
    pub in_mempool: u64,
    pub multi_user_locator: u64,
    pub same_block_penalty: u64,
    pub completions: u64,
    pub reorg_resends: u64,
    pub rebroadcasts: u64,
    pub reorged_conf: u64,
    pub purges: u64,
    pub purged_with_data: u64,
    pub retriggers: u64,
    pub updates: u64,
    pub updates_cross_slot: u64,
    pub renewals: u64,
    pub expired_rejections: u64,
    pub auth_rejections: u64,
    pub slot_rejections: u64,
    pub already_triggered: u64,
    pub breaches_per_block_max: u64,
    pub window_edge: [u64; 3],
}

fn viol(p: &str, sig: &str, msg: String) -> Violation {
    Violation {
        property: p.into(),
        signature: sig.into(),
        message: msg,
    }
}

impl Model {
    pub fn new(cfg: TowerCfg, initial_view: Vec<VBlock>) -> Model {
        let h = initial_view.last().unwrap().height;
        let mut m = Model {
            cfg,
            gk_height: h,
            w_height: h,
            carrier_height: h,
            users: BTreeMap::new(),
            appts: BTreeMap::new(),
            trackers: BTreeMap::new(),
            view: vec![],
            w_cache: VecDeque::new(),
            r_cache: VecDeque::new(),
            reorged: BTreeSet::new(),
            memo: HashMap::new(),
            tracker_optional: BTreeSet::new(),
            maybe_dropped: BTreeSet::new(),
            touched: vec![],
            touched_users: vec![],
            violations: vec![],
            new_trackers: vec![],
            stats: ModelStats::default(),
        };
        m.reset_view(initial_view);
        m
    }

    /// (Re)boot: the tower rebuilds its look-ups from the last 100 / 6 blocks ending at its tip.
    pub fn reset_view(&mut self, view: Vec<VBlock>) {
        self.view = view;
        let n = self.view.len();
        self.r_cache = self.view[n.saturating_sub(100)..].iter().map(|b| b.hash).collect();
        self.w_cache = self.view[n.saturating_sub(6)..].iter().map(|b| b.hash).collect();
        let h = self.view.last().unwrap().height;
        self.gk_height = h;
        self.w_height = h;
        self.carrier_height = h;
        self.reorged.clear();
        self.memo.clear();
    }

    pub fn begin_op(&mut self) {
        self.tracker_optional.clear();
        self.maybe_dropped.clear();
        self.touched.clear();
        self.touched_users.clear();
        self.new_trackers.clear();
    }

    fn block(&self, h: &BlockHash) -> Option<&VBlock> {
        self.view.iter().rev().find(|b| b.hash == *h)
    }

    /// dispute transaction for `locator` in the six-block look-up
    fn w_lookup(&self, locator: &Locator) -> Option<(Transaction, u32)> {
        // later blocks overwrite earlier ones in the real map; a locator is unique per chain anyway
        for h in self.w_cache.iter().rev() {
            let b = self.block(h)?;
            for tx in &b.txs {
                if Locator::new(tx.compute_txid()) == *locator {
                    return Some((tx.clone(), b.height));
                }
            }
        }
        None
    }

    fn r_lookup(&self, txid: &Txid) -> Option<u32> {
        for h in self.r_cache.iter().rev() {
            if let Some(b) = self.block(h) {
                if b.txs.iter().any(|t| t.compute_txid() == *txid) {
                    return Some(b.height);
                }
            }
        }
        None
    }

    fn expect_send(&mut self, seg: &mut Segment, tx: &Transaction, prop: &'static str, why: &str) -> Option<Verdict> {
        let txid = tx.compute_txid();
        if let Some(v) = self.memo.get(&txid) {
            return Some(v.clone());
        }
        match seg.take_send(&txid) {
            Some(v) => {
                self.memo.insert(txid, v.clone());
                Some(v)
            }
            None => {
                self.violations.push(viol(
                    prop,
                    &format!("missing-submission:{why}"),
                    format!("the tower did not submit {txid} to the node although it had to ({why})"),
                ));
                None
            }
        }
    }

    /// Models Responder::handle_breach. Returns Some(true)=accepted, Some(false)=rejected, None=unspecified/missing.
    fn handle_breach(&mut self, seg: &mut Segment, key: Key, dispute: &Transaction, penalty: &Transaction, at_height: u32) -> Option<bool> {
        self.stats.obligations += 1;
        let ptxid = penalty.compute_txid();
        let status = if let Some(h) = self.r_lookup(&ptxid) {
            self.stats.in_index += 1;
            Some(MStatus::Conf(h))
        } else {
            let q = seg.take_getraw(&ptxid);
            if q == Some(Verdict::InMempool) {
                self.stats.in_mempool += 1;
                Some(MStatus::Unconf)
            } else {
                match self.expect_send(seg, penalty, "C01", "breach-response") {
                    Some(Verdict::Accepted) => Some(MStatus::Unconf),
                    Some(Verdict::Error(crate::simnode::RPC_VERIFY_ALREADY_IN_CHAIN)) => {
                        self.stats.unspecified += 1;
                        if !self.trackers.contains_key(&key) {
                            self.tracker_optional.insert(key);
                        }
                        return None;
                    }
                    Some(Verdict::Error(_)) => return Some(false),
                    _ => {
                        self.maybe_dropped.insert(key);
                        return None;
                    }
                }
            }
        };
        let status = status.unwrap();
        if !self.trackers.contains_key(&key) {
            self.trackers.insert(
                key,
                MTracker {
                    dispute: dispute.clone(),
                    penalty: penalty.clone(),
                    status,
                    last_submit: at_height,
                    since: None,
                },
            );
            self.new_trackers.push(key);
            self.touched.push((key, "C01"));
        } else {
            self.stats.retriggers += 1;
            // the node has (been given) the penalty again: the re-submission clock starts anew
            let t = self.trackers.get_mut(&key).unwrap();
            if status == MStatus::Unconf {
                t.last_submit = t.last_submit.max(at_height);
            }
        }
        Some(true)
    }

    fn drop_appt(&mut self, key: Key, refund: bool, prop: &'static str) {
        if let Some(a) = self.appts.remove(&key) {
            let s = spec_slots(a.blob.len());
            if let Some(u) = self.users.get_mut(&key.0) {
                if refund {
                    u.avail = u.avail.wrapping_add(s);
                } else {
                    u.forfeited += s as u64;
                }
                self.touched_users.push((key.0, if refund { "C04" } else { "C07" }));
            }
        }
        self.trackers.remove(&key);
        self.touched.push((key, prop));
    }

    // ---------------------------------------------------------------- API operations

    pub fn register(&mut self, u: usize) -> Reply<(u32, u32, u32)> {
        let cfg = self.cfg;
        let h = self.gk_height;
        self.touched_users.push((u, "C09"));
        match self.users.get_mut(&u) {
            Some(user) => match user.avail.checked_add(cfg.slots) {
                None => Reply::Err("ResourceExhausted", "maximum slots".into()),
                Some(a) => {
                    user.avail = a;
                    user.expiry = user.expiry.saturating_add(cfg.duration);
                    user.granted += cfg.slots as u64;
                    self.stats.renewals += 1;
                    Reply::Ok((user.avail, user.start, user.expiry))
                }
            },
            None => {
                let user = MUser {
                    avail: cfg.slots,
                    start: h,
                    expiry: h.saturating_add(cfg.duration),
                    granted: cfg.slots as u64,
                    forfeited: 0,
                };
                let r = (user.avail, user.start, user.expiry);
                self.users.insert(u, user);
                Reply::Ok(r)
            }
        }
    }

    /// `signer`: the registered user (index) the signature recovers to over the request's message, if any.
    pub fn add_appointment(
        &mut self,
        signer: Option<usize>,
        locator: Locator,
        blob: &[u8],
        delay: u32,
        sig: &str,
        seg: &mut Segment,
    ) -> Reply<AddOk> {
        const AUTH: &str = "Invalid signature or user does not have enough slots available";
        let u = match signer.filter(|u| self.users.contains_key(u)) {
            Some(u) => u,
            None => {
                self.stats.auth_rejections += 1;
                return Reply::Err("Unauthenticated", AUTH.into());
            }
        };
        let (expiry, avail) = {
            let user = &self.users[&u];
            (user.expiry, user.avail)
        };
        if self.gk_height >= expiry {
            self.stats.expired_rejections += 1;
            return Reply::Err("Unauthenticated", format!("expired at {expiry}"));
        }
        let key = (u, locator);
        if self.trackers.contains_key(&key) {
            self.stats.already_triggered += 1;
            return Reply::Err("AlreadyExists", "already been triggered".into());
        }
        let required = spec_slots(blob.len()) as i64;
        let used = self.appts.get(&key).map_or(0, |a| spec_slots(a.blob.len()) as i64);
        let diff = required - used;
        if diff > avail as i64 {
            self.stats.slot_rejections += 1;
            return Reply::Err("Unauthenticated", AUTH.into());
        }
        let new_avail = (avail as i64 - diff) as u32;
        self.users.get_mut(&u).unwrap().avail = new_avail;
        self.touched_users.push((u, "C07"));
        let start_block = self.w_height;
        let appt = MAppt {
            blob: blob.to_vec(),
            delay,
            sig: sig.to_string(),
            start_block,
        };
        if self.appts.contains_key(&key) {
            self.stats.updates += 1;
            if diff != 0 {
                self.stats.updates_cross_slot += 1;
            }
        }
        match self.w_lookup(&locator) {
            Some((dispute, dh)) => {
                self.stats.trig_accept += 1;
                let age = self.w_height.saturating_sub(dh);
                if age >= 4 {
                    self.stats.window_edge[(age as usize - 4).min(2)] += 1;
                }
                match cryptography::decrypt(blob, &dispute.compute_txid()) {
                    Err(_) => {
                        // accepted, charged, nothing stored
                        self.stats.invalid_drops += 1;
                        // the last accepted version replaces the stored one: with nothing, and its slots are forfeited
                        self.appts.remove(&key);
                        self.users.get_mut(&u).unwrap().forfeited += required as u64;
                        self.touched.push((key, "C01"));
                    }
                    Ok(penalty) => {
                        // the row is inserted first (trackers reference it)
                        let had_old = self.appts.contains_key(&key);
                        self.appts.insert(key, appt);
                        self.touched.push((key, "C01"));
                        let h = self.carrier_height;
                        match self.handle_breach(seg, key, &dispute, &penalty, h) {
                            Some(true) => {}
                            Some(false) => {
                                self.stats.rejected_drops += 1;
                                self.drop_appt(key, false, "C01");
                            }
                            None => {}
                        }
                        let _ = had_old;
                    }
                }
            }
            None => {
                self.appts.insert(key, appt);
                self.touched.push((key, "C08"));
            }
        }
        Reply::Ok(AddOk {
            start_block,
            avail: new_avail,
            expiry,
        })
    }

    pub fn get_appointment(&mut self, signer: Option<usize>, locator: Locator) -> Reply<GetOk> {
        let u = match signer.filter(|u| self.users.contains_key(u)) {
            Some(u) => u,
            None => {
                self.stats.auth_rejections += 1;
                return Reply::Err("Unauthenticated", "cannot be authenticated".into());
            }
        };
        let expiry = self.users[&u].expiry;
        if self.gk_height >= expiry {
            self.stats.expired_rejections += 1;
            return Reply::Err("Unauthenticated", format!("expired at {expiry}"));
        }
        let key = (u, locator);
        if let Some(t) = self.trackers.get(&key) {
            return Reply::Ok(GetOk::Tracker {
                dispute_txid: t.dispute.compute_txid(),
                penalty_txid: t.penalty.compute_txid(),
                penalty_raw: consensus::serialize(&t.penalty),
            });
        }
        if let Some(a) = self.appts.get(&key) {
            return Reply::Ok(GetOk::Appointment {
                locator,
                blob: a.blob.clone(),
                delay: a.delay,
            });
        }
        Reply::Err("NotFound", "not found".into())
    }

    pub fn get_subscription_info(&mut self, signer: Option<usize>) -> Reply<(u32, u32, BTreeSet<Locator>)> {
        let u = match signer.filter(|u| self.users.contains_key(u)) {
            Some(u) => u,
            None => {
                self.stats.auth_rejections += 1;
                return Reply::Err("Unauthenticated", "User not found".into());
            }
        };
        let user = &self.users[&u];
        if self.gk_height >= user.expiry {
            self.stats.expired_rejections += 1;
            return Reply::Err("Unauthenticated", format!("expired at {}", user.expiry));
        }
        let locs = self.appts.keys().filter(|k| k.0 == u).map(|k| k.1).collect();
        Reply::Ok((user.avail, user.expiry, locs))
    }

    // ---------------------------------------------------------------- chain events

    pub fn block_disconnected(&mut self, hash: BlockHash, height: u32) {
        match self.view.last() {
            Some(b) if b.hash == hash && b.height == height => {}
            other => {
                self.violations.push(viol(
                    "C04",
                    "disconnect-not-tip",
                    format!("tower was told to disconnect {hash}@{height} but its tip is {:?}", other.map(|b| (b.hash, b.height))),
                ));
            }
        }
        self.view.pop();
        if self.w_cache.back() == Some(&hash) {
            self.w_cache.pop_back();
        }
        if self.r_cache.back() == Some(&hash) {
            self.r_cache.pop_back();
        }
        self.gk_height = height - 1;
        self.w_height = height - 1;
        self.carrier_height = height;
        let keys: Vec<Key> = self
            .trackers
            .iter()
            .filter(|(_, t)| t.status == MStatus::Conf(height))
            .map(|(k, _)| *k)
            .collect();
        for k in keys {
            self.stats.reorged_conf += 1;
            self.reorged.insert(k);
        }
    }

    pub fn block_connected(&mut self, block: VBlock, seg: &mut Segment) {
        let h = block.height;
        // What the node said about a transaction before this block says nothing about it now (the block may bring the parent
        // the transaction was missing): verdicts are remembered within the processing of one block, and between two blocks, but
        // not across the arrival of a block.
        self.memo.clear();
        // contiguity: the tower must be given the successor of its tip
        if let Some(tip) = self.view.last() {
            if block.prev != tip.hash || h != tip.height + 1 {
                self.violations.push(viol(
                    "C03",
                    "skipped-blocks",
                    format!(
                        "the tower connected block {}@{} on top of its tip {}@{}: blocks in between were never processed",
                        block.hash, h, tip.hash, tip.height
                    ),
                ));
            }
        }
        // ---- Gatekeeper: purge outdated users
        let outdated: Vec<usize> = self
            .users
            .iter()
            .filter(|(_, u)| h as u64 >= u.expiry as u64 + self.cfg.grace as u64)
            .map(|(i, _)| *i)
            .collect();
        for u in outdated {
            self.stats.purges += 1;
            self.users.remove(&u);
            self.touched_users.push((u, "C09"));
            let keys: Vec<Key> = self.appts.keys().filter(|k| k.0 == u).cloned().collect();
            if !keys.is_empty() {
                self.stats.purged_with_data += 1;
            }
            for k in keys {
                self.appts.remove(&k);
                self.trackers.remove(&k);
                self.touched.push((k, "C09"));
            }
        }
        self.gk_height = h;

        // ---- Watcher
        self.view.push(block.clone());
        self.w_cache.push_back(block.hash);
        if self.w_cache.len() > 6 {
            self.w_cache.pop_front();
        }
        let mut locs: HashMap<Locator, Transaction> = HashMap::new();
        for tx in &block.txs {
            locs.insert(Locator::new(tx.compute_txid()), tx.clone());
        }
        let triggered: Vec<Key> = self.appts.keys().filter(|k| locs.contains_key(&k.1)).cloned().collect();
        self.stats.breaches_per_block_max = self.stats.breaches_per_block_max.max(triggered.len() as u64);
        let mut by_loc: HashMap<Locator, usize> = HashMap::new();
        for k in &triggered {
            *by_loc.entry(k.1).or_insert(0) += 1;
        }
        self.stats.multi_user_locator += by_loc.values().filter(|n| **n > 1).count() as u64;
        let mut invalid: Vec<Key> = vec![];
        for key in triggered {
            self.stats.trig_block += 1;
            let dispute = locs[&key.1].clone();
            let blob = self.appts[&key].blob.clone();
            match cryptography::decrypt(&blob, &dispute.compute_txid()) {
                Err(_) => {
                    self.stats.invalid_drops += 1;
                    self.stats.obligations += 1;
                    invalid.push(key);
                }
                Ok(penalty) => {
                    if block.txs.iter().any(|t| t.compute_txid() == penalty.compute_txid()) {
                        self.stats.same_block_penalty += 1;
                    }
                    let ch = self.carrier_height;
                    match self.handle_breach(seg, key, &dispute, &penalty, ch) {
                        Some(true) => {}
                        Some(false) => {
                            self.stats.rejected_drops += 1;
                            invalid.push(key);
                        }
                        None => {}
                    }
                }
            }
        }
        for k in invalid {
            self.drop_appt(k, false, "C01");
        }
        self.w_height = h;

        // ---- Responder
        self.carrier_height = h;
        self.r_cache.push_back(block.hash);
        if self.r_cache.len() > 100 {
            self.r_cache.pop_front();
        }
        let in_block: BTreeSet<Txid> = block.txs.iter().map(|t| t.compute_txid()).collect();
        let mut completed: Vec<Key> = vec![];
        let keys: Vec<Key> = self.trackers.keys().cloned().collect();
        for k in &keys {
            let t = self.trackers.get_mut(k).unwrap();
            if in_block.contains(&t.penalty.compute_txid()) {
                t.status = MStatus::Conf(h);
                self.reorged.remove(k);
                self.touched.push((*k, "C04"));
            } else if self.reorged.contains(k) {
                continue;
            } else if let MStatus::Conf(c) = t.status {
                if h.wrapping_sub(c) == 100 {
                    completed.push(*k);
                }
            }
        }
        for k in completed {
            self.stats.completions += 1;
            self.drop_appt(k, true, "C04");
        }
        // reorged trackers: dispute then penalty are announced again
        let reorged: Vec<Key> = std::mem::take(&mut self.reorged).into_iter().collect();
        let mut rejected: Vec<Key> = vec![];
        for k in reorged {
            let t = match self.trackers.get(&k) {
                Some(t) => t.clone(),
                None => continue, // the tracker is gone (owner purged / dropped): nothing to re-announce
            };
            self.stats.reorg_resends += 1;
            let publish = match self.expect_send(seg, &t.dispute, "C04", "reorg-resend-dispute") {
                Some(Verdict::Accepted) | Some(Verdict::Error(crate::simnode::RPC_VERIFY_ALREADY_IN_CHAIN)) => true,
                Some(Verdict::Error(_)) => false,
                _ => {
                    self.maybe_dropped.insert(k);
                    continue;
                }
            };
            if publish {
                match self.expect_send(seg, &t.penalty, "C04", "reorg-resend-penalty") {
                    Some(Verdict::Error(c)) if c != crate::simnode::RPC_VERIFY_ALREADY_IN_CHAIN => rejected.push(k),
                    Some(_) => {
                        let tt = self.trackers.get_mut(&k).unwrap();
                        tt.status = MStatus::Unconf;
                        tt.last_submit = h;
                        self.touched.push((k, "C04"));
                    }
                    None => {
                        self.maybe_dropped.insert(k);
                    }
                }
            } else {
                rejected.push(k);
            }
        }
        // stale rebroadcasts: any re-submission of an unconfirmed tracker's penalty is legitimate
        let mut groups: BTreeMap<Txid, Vec<Key>> = BTreeMap::new();
        for (k, t) in &self.trackers {
            if t.status == MStatus::Unconf && !rejected.contains(k) {
                groups.entry(t.penalty.compute_txid()).or_default().push(*k);
            }
        }
        for (ptxid, keys) in groups {
            let ev = seg.take_send(&ptxid);
            match ev {
                Some(v) => {
                    self.memo.insert(ptxid, v.clone());
                    // which trackers asked for it: all of them if there is one, else the ones the tower itself considered stale
                    let consumers: Vec<Key> = if keys.len() == 1 {
                        keys.clone()
                    } else {
                        let c: Vec<Key> = keys.iter().filter(|k| self.trackers[*k].since.map_or(true, |s| s.saturating_add(6) <= h)).cloned().collect();
                        if c.is_empty() { keys.clone() } else { c }
                    };
                    for k in consumers {
                        match v {
                            Verdict::Accepted => {
                                self.stats.rebroadcasts += 1;
                                self.trackers.get_mut(&k).unwrap().last_submit = h;
                            }
                            Verdict::Error(crate::simnode::RPC_VERIFY_ALREADY_IN_CHAIN) => {
                                self.stats.unspecified += 1;
                                self.trackers.get_mut(&k).unwrap().last_submit = h;
                            }
                            Verdict::Error(_) => {
                                self.stats.rebroadcasts += 1;
                                rejected.push(k);
                            }
                            _ => {}
                        }
                    }
                }
                None => {
                    let memo_v = self.memo.get(&ptxid).cloned();
                    for k in keys {
                        let t = &self.trackers[&k];
                        match memo_v {
                            Some(Verdict::Error(c)) if c != crate::simnode::RPC_VERIFY_ALREADY_IN_CHAIN => {
                                // a rejection of this very transaction earlier in the block: whether this tracker was
                                // re-sent too (and so dropped) depends on the tower's private staleness clock
                                self.maybe_dropped.insert(k);
                            }
                            Some(_) => {}
                            None => {
                                if h > t.last_submit && h - t.last_submit > 8 && !self.maybe_dropped.contains(&k) {
                                    self.violations.push(viol(
                                        "C04",
                                        "stale-penalty-not-rebroadcast",
                                        format!("penalty {ptxid} has been unconfirmed since block {} and was not re-submitted by block {h}", t.last_submit),
                                    ));
                                }
                            }
                        }
                    }
                }
            }
        }
        for k in rejected {
            self.stats.rejected_drops += 1;
            self.drop_appt(k, false, "C04");
        }
        self.memo.clear();
    }
}

pub fn uuid_of(locator: &Locator, user_pk: &bitcoin::secp256k1::PublicKey) -> Vec<u8> {
    use bitcoin::hashes::ripemd160;
    let mut d = locator.to_vec();
    d.extend(user_pk.serialize());
    ripemd160::Hash::hash(&d).to_byte_array().to_vec()
}

//! A watchdog for single-threaded runs: a thread that asks for a lock of the tower it already holds would wait for
//! itself forever (std's Mutex is not re-entrant), which in a plain history campaign hangs the worker for good.
//! This observer of the `teos::verif::sync` shim turns that into a panic inside `lock()`, which the engines report
//! like any other aborting handler (C11).
use std::cell::RefCell;

use teos::verif::sync::{set_observer, Event, EventKind, Observer};

thread_local! {
    static HELD: RefCell<Vec<usize>> = RefCell::new(Vec::new());
}

fn on_event(e: Event) {
    match e.kind {
        EventKind::Want => {
            let again = HELD.with(|h| h.borrow().contains(&e.lock));
            if again {
                panic!("self-deadlock: this thread already holds the lock created at {}:{} and asks for it again (it would wait for itself forever)", e.site.file(), e.site.line());
            }
        }
        EventKind::Acquired => HELD.with(|h| h.borrow_mut().push(e.lock)),
        EventKind::Released => HELD.with(|h| {
            let mut h = h.borrow_mut();
            if let Some(pos) = h.iter().rposition(|l| *l == e.lock) {
                h.remove(pos);
            }
        }),
        _ => {}
    }
}

fn never() -> bool {
    false
}

/// Installs the observer (replaces any other one; the scheduler installs its own when it runs).
pub fn install() {
    set_observer(Some(Observer { event: on_event, was_notified: never, virtual_condvars: false }));
}

/// A panic unwinding through a guard's drop still emits Released, so the bookkeeping stays right; a thread that is
/// re-used for another case starts clean anyway.
pub fn reset_thread() {
    HELD.with(|h| h.borrow_mut().clear());
}

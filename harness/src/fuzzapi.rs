//! Entry points of the libFuzzer targets under /verif/fuzz, and of `./check <id> --replay <artifact>` for the inputs
//! they save. Each function decodes the bytes into a case of the matching proptest campaign - so the oracle is the
//! campaign's own - and panics with the violation's text when the oracle objects. Byte-level branches (raw
//! ciphertexts, raw signature strings, raw JSON) carry their own small oracles, stated next to them.

use std::sync::OnceLock;

use bitcoin::hashes::Hash;
use bitcoin::Txid;
use serde::{de::DeserializeOwned, Serialize};

use teos_common::appointment::{Appointment, Locator};
use teos_common::cryptography::{decrypt, encrypt, recover_pk, verify};
use teos_common::protos as msgs;
use teos_common::UserId;

use crate::props::{c15, c17};
use crate::runner::Campaign;

pub struct Cur<'a> {
    d: &'a [u8],
    i: usize,
}

impl<'a> Cur<'a> {
    pub fn new(d: &'a [u8]) -> Self {
        Cur { d, i: 0 }
    }
    pub fn u8(&mut self) -> u8 {
        let v = self.d.get(self.i).copied().unwrap_or(0);
        self.i += 1;
        v
    }
    pub fn u16(&mut self) -> u16 {
        u16::from_le_bytes([self.u8(), self.u8()])
    }
    pub fn u32(&mut self) -> u32 {
        u32::from_le_bytes([self.u8(), self.u8(), self.u8(), self.u8()])
    }
    pub fn u64(&mut self) -> u64 {
        (self.u32() as u64) << 32 | self.u32() as u64
    }
    /// a length byte (capped) followed by that many bytes
    pub fn bytes(&mut self, cap: usize) -> Vec<u8> {
        let n = (self.u8() as usize).min(cap);
        self.take(n)
    }
    pub fn take(&mut self, n: usize) -> Vec<u8> {
        let start = self.i.min(self.d.len());
        let end = (self.i + n).min(self.d.len());
        self.i += n;
        self.d[start..end].to_vec()
    }
    pub fn rest(&mut self) -> Vec<u8> {
        let start = self.i.min(self.d.len());
        self.i = self.d.len();
        self.d[start..].to_vec()
    }
}

fn object(violations: &[crate::runner::Violation]) {
    if let Some(v) = violations.first() {
        panic!("VERIF-ORACLE property={} signature={} :: {}", v.property, v.signature, v.message);
    }
}

// ---------------------------------------------------------------------------------------------------------------
// C17

pub fn crypto_case(c: &mut Cur) -> c17::Case {
    let version = c.u32() as i32;
    let locktime = c.u32();
    // (at least one input: a transaction without inputs has no unambiguous serialisation)
    let n_in = 1 + c.u8() % 3;
    let mut inputs = vec![];
    for _ in 0..n_in {
        let txid = c.take(32);
        let vout = c.u32();
        let script = c.bytes(80);
        let seq = c.u32();
        let n_w = c.u8() % 4;
        let wit = (0..n_w).map(|_| c.bytes(80)).collect();
        inputs.push((txid, vout, script, seq, wit));
    }
    let n_out = c.u8() % 4;
    let outputs = (0..n_out).map(|_| (c.u64(), c.bytes(60))).collect();
    let key = c.take(32);
    let ct_mut = match c.u8() % 3 {
        0 => c17::CtMut::BitFlip(c.u32()),
        1 => c17::CtMut::Truncate(c.u16()),
        _ => c17::CtMut::Extend({
            let mut e = c.bytes(8);
            if e.is_empty() {
                e.push(0);
            }
            e
        }),
    };
    let key_mut = match c.u8() % 3 {
        0 => c17::KeyMut::Other(c.take(32)),
        1 => c17::KeyMut::BitFlip(c.u8()),
        _ => c17::KeyMut::SameLocator(c.take(16)),
    };
    let msg = c.bytes(120);
    let sk = c.take(32);
    let msg_mut = match c.u8() % 4 {
        0 => c17::MsgMut::BitFlip(c.u32()),
        1 => c17::MsgMut::Append(c.u8()),
        2 => c17::MsgMut::DropLast,
        _ => c17::MsgMut::Prepend(c.u8()),
    };
    let sig_mut = match c.u8() % 7 {
        0 => c17::SigMut::BitFlip(c.u16()),
        1 => c17::SigMut::Symbol(c.u8(), c.u8()),
        2 => c17::SigMut::Insert(c.u8(), c.u8()),
        3 => c17::SigMut::Delete(c.u8()),
        4 => c17::SigMut::NonAlphabet(c.u8()),
        5 => c17::SigMut::Truncate(c.u8()),
        _ => c17::SigMut::Case(c.u8()),
    };
    c17::Case { tx: c17::TxSpec { version, locktime, inputs, outputs }, key, ct_mut, key_mut, msg, sk, msg_mut, sig_mut }
}

/// byte 0 selects: structured (the C17 campaign's case and oracle), raw ciphertext, raw signature string.
pub fn crypto(data: &[u8]) {
    let mut c = Cur::new(data);
    match c.u8() % 4 {
        0 | 1 => {
            let case = crypto_case(&mut c);
            let rep = c17::run_one(&case);
            object(&rep.violations);
        }
        2 => {
            // any byte string under any id: decrypt answers (no crash); if it yields a transaction, the ciphertext was
            // exactly the encryption of that transaction under that id (nothing else decrypts)
            let mut k = [0u8; 32];
            for (i, b) in c.take(32).iter().enumerate() {
                k[i] = *b;
            }
            let k = Txid::from_byte_array(k);
            let ct = c.rest();
            if let Ok(tx) = decrypt(&ct, &k) {
                let again = encrypt(&tx, &k).expect("encrypt failed on a transaction decrypt produced");
                if again != ct {
                    panic!("VERIF-ORACLE property=C17 signature=foreign-ciphertext-decrypts :: {} bytes decrypt under {k} to a transaction whose encryption is a different byte string", ct.len());
                }
            }
        }
        _ => {
            // any message and any signature string: recover_pk answers (no crash); a key it recovers is one the
            // signature verifies for, and verify agrees with recover for every other key
            let msg = c.bytes(200);
            let sig = String::from_utf8_lossy(&c.rest()).to_string();
            match recover_pk(&msg, &sig) {
                Ok(pk) => {
                    if !verify(&msg, &sig, &pk) {
                        panic!("VERIF-ORACLE property=C17 signature=recover-and-verify-disagree :: recover_pk gives {pk} for {sig:?} but verify refuses that key");
                    }
                    let other = crate::world::user_pk(7);
                    if other != pk && verify(&msg, &sig, &other) {
                        panic!("VERIF-ORACLE property=C17 signature=verifies-for-two-keys :: {sig:?} verifies for {pk} and for {other}");
                    }
                }
                Err(_) => {
                    if verify(&msg, &sig, &crate::world::user_pk(7)) {
                        panic!("VERIF-ORACLE property=C17 signature=verify-accepts-what-recover-refuses :: {sig:?}");
                    }
                }
            }
        }
    }
}

// ---------------------------------------------------------------------------------------------------------------
// C16

fn reparse<T: Serialize + DeserializeOwned>(name: &str, json: &[u8]) {
    // parse -> print -> parse -> print: the two prints are equal (printing is a function of the parsed value and
    // parsing the print loses nothing)
    if let Ok(a) = serde_json::from_slice::<T>(json) {
        let s1 = serde_json::to_string(&a).unwrap_or_else(|e| panic!("VERIF-ORACLE property=C16 signature=parsed-value-does-not-print:{name} :: {e}"));
        match serde_json::from_str::<T>(&s1) {
            Ok(b) => {
                let s2 = serde_json::to_string(&b).unwrap();
                if s1 != s2 {
                    panic!("VERIF-ORACLE property=C16 signature=reparse-not-identity:{name} :: {s1} -> {s2}");
                }
            }
            Err(e) => panic!("VERIF-ORACLE property=C16 signature=own-output-does-not-parse:{name} :: {s1}: {e}"),
        }
    }
}

/// byte 0 selects the message type, the rest is the JSON text; last selectors: signed layouts of two decoded appointments.
pub fn wire(data: &[u8]) {
    let mut c = Cur::new(data);
    let sel = c.u8() % 14;
    if sel == 13 {
        let mk = |c: &mut Cur| {
            let mut l = [0u8; 16];
            for (i, b) in c.take(16).iter().enumerate() {
                l[i] = *b;
            }
            let blob = c.bytes(64);
            let delay = c.u32();
            Appointment::new(Locator::from_slice(&l).unwrap(), blob, delay)
        };
        let a = mk(&mut c);
        let b = mk(&mut c);
        if a != b && a.to_vec() == b.to_vec() {
            panic!("VERIF-ORACLE property=C16 signature=appointment-signed-bytes-ambiguous :: {a:?} and {b:?} serialise to the same signed bytes");
        }
        let v = a.to_vec();
        if v.len() != 16 + a.encrypted_blob.len() + 4 || v[..16] != a.locator.to_vec()[..] || v[v.len() - 4..] != a.to_self_delay.to_be_bytes() {
            panic!("VERIF-ORACLE property=C16 signature=appointment-layout :: {a:?} does not serialise as locator || blob || delay");
        }
        return;
    }
    let json = c.rest();
    match sel {
        0 => reparse::<msgs::RegisterRequest>("RegisterRequest", &json),
        1 => reparse::<msgs::AddAppointmentRequest>("AddAppointmentRequest", &json),
        2 => reparse::<msgs::GetAppointmentRequest>("GetAppointmentRequest", &json),
        3 => reparse::<msgs::GetSubscriptionInfoRequest>("GetSubscriptionInfoRequest", &json),
        4 => reparse::<msgs::RegisterResponse>("RegisterResponse", &json),
        5 => reparse::<msgs::AddAppointmentResponse>("AddAppointmentResponse", &json),
        6 => reparse::<msgs::GetAppointmentResponse>("GetAppointmentResponse", &json),
        7 => reparse::<msgs::GetSubscriptionInfoResponse>("GetSubscriptionInfoResponse", &json),
        8 => reparse::<Appointment>("Appointment", &json),
        9 => reparse::<Locator>("Locator", &json),
        10 => reparse::<UserId>("UserId", &json),
        11 => reparse::<watchtower_plugin::net::http::ApiResponse<msgs::AddAppointmentResponse>>("ApiResponse<AddAppointmentResponse>", &json),
        _ => reparse::<watchtower_plugin::net::http::ApiResponse<msgs::RegisterResponse>>("ApiResponse<RegisterResponse>", &json),
    }
}

// ---------------------------------------------------------------------------------------------------------------
// C15

static C15: OnceLock<c15::C15> = OnceLock::new();

/// bytes 0-4: method, target, path variant, content type, flags; the rest is the body, byte for byte.
/// One request against a fresh tower behind the real warp router; the C15 campaign's oracle judges the answer.
pub fn http_request(data: &[u8]) {
    let camp = C15.get_or_init(|| c15::make(1));
    let mut c = Cur::new(data);
    let method = c.u8();
    // mostly the four endpoints with POST
    let method = if method < 200 { 0 } else { method };
    let target = c.u8() % 10;
    let path_variant = c.u8();
    let content_type = c.u8() % 4;
    let flags = c.u8();
    let body = c.rest();
    let case = c15::Case { huge_slots: flags & 0x81 == 0x81, node_down: flags & 0x42 == 0x42, reqs: vec![c15::Req { method, target, path_variant, body: c15::Body::Raw(body), content_type }] };
    let rep = camp.run_case(&case, 0);
    object(&rep.violations);
}

// ---------------------------------------------------------------------------------------------------------------
// seeds and replay

/// Writes a small seed corpus per target (valid inputs of every kind, as libFuzzer starting points).
pub fn write_seeds(dir: &str) {
    let w = |target: &str, name: &str, bytes: Vec<u8>| {
        let d = format!("{dir}/{target}");
        std::fs::create_dir_all(&d).unwrap();
        std::fs::write(format!("{d}/{name}"), bytes).unwrap();
    };
    // http: the valid body of each endpoint
    for ep in 0..4u8 {
        let body = c15::render_body(ep as usize, &c15::Body::Structured { u: 0, chan: ep, blob_len: 0, mutation: c15::Mutation::None });
        let mut b = vec![0, ep, 0, 0, 0];
        b.extend_from_slice(&body);
        w("http_request", &format!("valid-{ep}"), b);
        let body = c15::render_body(ep as usize, &c15::Body::Structured { u: 9, chan: ep, blob_len: 0, mutation: c15::Mutation::None });
        let mut b = vec![0, ep, 0, 0, 0];
        b.extend_from_slice(&body);
        w("http_request", &format!("unknown-user-{ep}"), b);
    }
    w("http_request", "ping", vec![250, 4, 0, 3, 0]);
    // wire: one valid JSON text per type
    let texts: Vec<(u8, String)> = vec![
        (0, serde_json::to_string(&msgs::RegisterRequest { user_id: vec![2; 33] }).unwrap()),
        (1, serde_json::to_string(&msgs::AddAppointmentRequest { appointment: Some(msgs::Appointment { locator: vec![1; 16], encrypted_blob: vec![9; 40], to_self_delay: 42 }), signature: "sig".into() }).unwrap()),
        (2, serde_json::to_string(&msgs::GetAppointmentRequest { locator: vec![1; 16], signature: "sig".into() }).unwrap()),
        (3, serde_json::to_string(&msgs::GetSubscriptionInfoRequest { signature: "sig".into() }).unwrap()),
        (4, serde_json::to_string(&msgs::RegisterResponse { user_id: vec![2; 33], available_slots: 100, subscription_start: 1, subscription_expiry: 2, subscription_signature: "s".into() }).unwrap()),
        (5, serde_json::to_string(&msgs::AddAppointmentResponse { locator: vec![1; 16], start_block: 7, signature: "s".into(), available_slots: 3, subscription_expiry: 9 }).unwrap()),
        (6, serde_json::to_string(&msgs::GetAppointmentResponse { appointment_data: Some(msgs::AppointmentData { appointment_data: Some(msgs::appointment_data::AppointmentData::Tracker(msgs::Tracker { dispute_txid: vec![1; 32], penalty_txid: (0..32).collect(), penalty_rawtx: vec![5; 60] })) }), status: 2 }).unwrap()),
        (6, serde_json::to_string(&msgs::GetAppointmentResponse { appointment_data: Some(msgs::AppointmentData { appointment_data: Some(msgs::appointment_data::AppointmentData::Appointment(msgs::Appointment { locator: vec![1; 16], encrypted_blob: vec![9; 40], to_self_delay: 42 })) }), status: 1 }).unwrap()),
        (7, serde_json::to_string(&msgs::GetSubscriptionInfoResponse { available_slots: 3, subscription_expiry: 9, locators: vec![vec![1; 16], vec![2; 16]] }).unwrap()),
        (8, serde_json::to_string(&Appointment::new(Locator::from_slice(&[3; 16]).unwrap(), vec![1, 2, 3], 42)).unwrap()),
        (9, serde_json::to_string(&Locator::from_slice(&[3; 16]).unwrap()).unwrap()),
        (10, serde_json::to_string(&UserId(crate::world::user_pk(1))).unwrap()),
        (11, "{\"error\":\"x\",\"error_code\":7}".to_string()),
    ];
    for (i, (sel, t)) in texts.into_iter().enumerate() {
        let mut b = vec![sel];
        b.extend_from_slice(t.as_bytes());
        w("wire", &format!("type-{sel}-{i}"), b);
    }
    w("wire", "layout", {
        let mut b = vec![13u8];
        b.extend_from_slice(&[7u8; 60]);
        b
    });
    // crypto: a structured case, a raw ciphertext (a real one), a raw signature (a real one)
    let mut b = vec![0u8];
    b.extend((0..200u32).map(|i| (i * 37 % 251) as u8));
    w("crypto", "structured", b);
    let tx = crate::simnode::txs::dispute(1, 1, 0);
    let k = tx.compute_txid();
    let mut b = vec![2u8];
    b.extend_from_slice(&k.to_byte_array());
    b.extend_from_slice(&encrypt(&tx, &k).unwrap());
    w("crypto", "ciphertext", b);
    let sig = teos_common::cryptography::sign(b"hello", &crate::world::user_sk(7));
    let mut b = vec![3u8, 5];
    b.extend_from_slice(b"hello");
    b.extend_from_slice(sig.as_bytes());
    w("crypto", "signature", b);
}

/// Runs one saved input through a target, outside libFuzzer. Ok(()) = the oracle is content.
pub fn replay_artifact(target: &str, bytes: &[u8]) -> Result<(), String> {
    let bytes = bytes.to_vec();
    let target = target.to_string();
    let r = std::panic::catch_unwind(move || match target.as_str() {
        "crypto" => crypto(&bytes),
        "wire" => wire(&bytes),
        "http_request" => http_request(&bytes),
        other => panic!("no such fuzz target: {other}"),
    });
    match r {
        Ok(()) => Ok(()),
        Err(e) => Err(e.downcast_ref::<String>().cloned().or_else(|| e.downcast_ref::<&str>().map(|s| s.to_string())).unwrap_or_else(|| "panic".into())),
    }
}

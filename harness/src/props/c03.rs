//! C03 — tower crash at any instant + restart loses no acknowledged work.
//!
//! Metamorphic/differential oracle: for a generated history H and every crash point n passed while
//! executing it (every durable write pre/post, every sendrawtransaction pre/post), the run "H with the
//! tower killed at n and restarted on the same directory" must end in the same abstract state as the
//! uninterrupted run of H — or, when the crash hit an API request whose reply the client never saw, of H
//! without that request, up to the partial states the statement tolerates for that request only.
//! Restart invariants (boots, same id, no dangling rows, last known block is a processed block) are
//! checked at every restart.

use std::collections::{BTreeMap, BTreeSet};
use std::path::PathBuf;
use std::sync::Arc;
use std::time::Instant;

use bitcoin::{BlockHash, Transaction, Txid};
use proptest::prelude::*;
use serde_json::json;

use teos_common::appointment::Appointment;
use teos_common::cryptography;

use crate::evidence::Evidence;
use crate::faults;
use crate::model::{spec_slots, Locator};
use crate::ops::*;
use crate::runner::{self, Campaign, CaseReport, Ctx, Violation};
use crate::simnode::{txs, Call, Node};
use crate::towerbox::{BootError, Snapshot, Tower};
use crate::world::{blob_of, make_sig, scratch_dir, signer_of, tx_of, user_pk, ReqKind, SALT, START_HEIGHT};

#[derive(Debug, Clone, Default)]
pub struct Abstract {
    pub users: BTreeMap<Vec<u8>, (u32, u32, u32)>,
    pub appts: BTreeMap<Vec<u8>, (Vec<u8>, Vec<u8>, u32)>, // uuid -> (user, blob, delay)
    pub trackers: BTreeMap<Vec<u8>, (Vec<u8>, Vec<u8>, bool)>,
    pub node_penalties: BTreeSet<Txid>,
    /// confirmation height of confirmed trackers and the tower's tip (not compared, used for the completion slack)
    pub conf_heights: BTreeMap<Vec<u8>, u32>,
    pub tip: u32,
}

impl PartialEq for Abstract {
    fn eq(&self, o: &Self) -> bool {
        self.users == o.users && self.appts == o.appts && self.trackers == o.trackers && self.node_penalties == o.node_penalties
    }
}
impl Eq for Abstract {}

/// A tracker that is within a few blocks of its 100th confirmation in the crashed run while the uninterrupted run
/// already completed it is the same outcome shifted by the blocks the tower was down: complete it in the crashed state.
fn normalise_completion(c: &Abstract, r: &Abstract, slack: u32) -> Abstract {
    let mut c2 = c.clone();
    for (uuid, h) in &c.conf_heights {
        if !r.appts.contains_key(uuid) && c.tip.saturating_sub(*h) + slack >= 100 {
            if let Some((user, blob, _)) = c2.appts.remove(uuid) {
                c2.trackers.remove(uuid);
                if let Some(u) = c2.users.get_mut(&user) {
                    u.0 += spec_slots(blob.len());
                }
            }
        }
    }
    c2
}

#[derive(Debug, Clone)]
pub struct CrashInfo {
    pub op_idx: usize,
    pub tag: &'static str,
    pub n: u64,
}

pub struct Outcome {
    pub fin: Abstract,
    pub crash: Option<CrashInfo>,
    pub violations: Vec<Violation>,
    pub points: u64,
    pub tags: Vec<&'static str>,
    pub restarts: u64,
    pub failed_download_polls: u64,
    /// appointment rows (uuid -> blob length) found on disk right after the crash
    pub row_at_crash: Option<BTreeMap<Vec<u8>, usize>>,
    pub already_in_chain: BTreeSet<Txid>,
}

struct Exec {
    node: Arc<Node>,
    tower: Option<Tower>,
    dir: PathBuf,
    cfg: crate::towerbox::TowerCfg,
    users: u8,
    tower_id: Vec<u8>,
    /// blocks the tower has fully processed, oldest first
    processed: Vec<BlockHash>,
    /// every block the tower ever finished processing (also ones disconnected since)
    ever_processed: BTreeSet<BlockHash>,
    log_pos: usize,
    violations: Vec<Violation>,
    restarts: u64,
    failed_download_since_good_poll: bool,
    crash_mid_poll: bool,
    failed_polls: u64,
    /// transactions the node answered 'already in block chain' for
    already_in_chain: BTreeSet<Txid>,
    /// lossy reorgs are honoured (see Op::Reorg)
    lossy_allowed: bool,
}

fn viol(sig: &str, msg: String) -> Violation {
    Violation {
        property: "C03".into(),
        signature: sig.into(),
        message: msg,
    }
}

impl Exec {
    fn new(h: &History, tag: &str) -> Result<Exec, Violation> {
        let node = Node::new(START_HEIGHT, h.txindex);
        {
            let mut st = node.lock();
            for c in 0..8u32 {
                st.funded.insert(txs::funding(SALT, c));
            }
            for n in 0..8u32 {
                st.funded.insert(txs::noise_outpoint(SALT, n));
            }
        }
        let dir = scratch_dir(tag);
        let _ = std::fs::remove_dir_all(&dir);
        let processed: Vec<BlockHash> = node.lock().active.clone();
        let tower = Tower::boot(node.clone(), &dir, h.cfg).map_err(|e| viol("boot-failed", format!("first boot failed: {e:?}")))?;
        let tower_id = tower.tower_pk.serialize().to_vec();
        let log_pos = node.log_len();
        Ok(Exec {
            node,
            tower: Some(tower),
            dir,
            cfg: h.cfg,
            users: h.users,
            tower_id,
            ever_processed: processed.iter().cloned().collect(),
            processed,
            log_pos,
            violations: vec![],
            restarts: 0,
            failed_download_since_good_poll: false,
            crash_mid_poll: false,
            failed_polls: 0,
            already_in_chain: BTreeSet::new(),
            lossy_allowed: true,
        })
    }

    /// Follows the begin/end markers to know which blocks the tower has processed.
    fn track(&mut self) {
        let events = self.node.log_since(self.log_pos);
        self.log_pos += events.len();
        for e in events {
            match e.call {
                Call::BlockEnd(h, _) => {
                    let prev = self.node.lock().blocks[&h].block.header.prev_blockhash;
                    if self.processed.last() != Some(&prev) {
                        self.violations.push(viol(
                            "skipped-blocks",
                            format!("the tower connected block {h} although it had not processed its parent (its processed tip is {:?})", self.processed.last()),
                        ));
                    }
                    self.processed.push(h);
                    self.ever_processed.insert(h);
                }
                Call::DisconnectEnd(h, _) => {
                    if self.processed.last() == Some(&h) {
                        self.processed.pop();
                    }
                }
                Call::SendRawTransaction(t) if e.verdict == crate::simnode::Verdict::Error(crate::simnode::RPC_VERIFY_ALREADY_IN_CHAIN) => {
                    self.already_in_chain.insert(t);
                }
                _ => {}
            }
        }
    }

    /// Kills (drops) the tower and boots a new one on the same directory; checks the restart invariants.
    fn restart(&mut self, why: &str, blocks_while_down: u8) -> bool {
        self.track();
        self.tower = None;
        self.restarts += 1;
        // the chain moves on while the tower is down
        for _ in 0..blocks_while_down {
            self.mine_one(Take::All, &[]);
        }
        // invariants on the file the dead tower left behind
        let snap = Snapshot::read(&self.dir.join("teos_db.sql3"));
        if snap.fk_violations > 0 {
            self.violations.push(viol("dangling-records", format!("{why}: {} dangling records (foreign key check) after the crash", snap.fk_violations)));
            return false;
        }
        if let Some(lkb) = &snap.last_known_block {
            use bitcoin::hashes::Hash;
            let known = self.ever_processed.iter().find(|h| h.to_byte_array().to_vec() == *lkb).cloned();
            match known {
                Some(h) => {
                    // the tower resumes from there: its processed chain is that block and its ancestors
                    let st = self.node.lock();
                    let mut chain = vec![h];
                    let mut cur = h;
                    while let Some(e) = st.blocks.get(&cur) {
                        let prev = e.block.header.prev_blockhash;
                        if !st.blocks.contains_key(&prev) {
                            break;
                        }
                        chain.push(prev);
                        cur = prev;
                    }
                    chain.reverse();
                    drop(st);
                    self.processed = chain;
                }
                None => {
                    let ctx = if self.failed_download_since_good_poll {
                        "after-failed-block-download"
                    } else if self.crash_mid_poll {
                        "crash-mid-poll"
                    } else {
                        "other"
                    };
                    self.violations.push(viol(
                        &format!("last-known-block-not-processed:{ctx}"),
                        format!("{why}: the persisted last known block {} is a block the tower never finished processing (processed tip: {:?}); the blocks in between will never be processed", hex::encode(lkb.iter().rev().cloned().collect::<Vec<u8>>()), self.processed.last()),
                    ));
                    return false;
                }
            }
        }
        faults::pause();
        let r = Tower::boot(self.node.clone(), &self.dir, self.cfg);
        faults::resume();
        match r {
            Err(BootError::Panic(p)) => {
                self.violations.push(viol(&format!("restart-aborted:{}", crate::panics::signature(&p)), format!("{why}: restart on the same data directory aborted: {p}")));
                false
            }
            Err(e) => {
                self.violations.push(viol("restart-failed", format!("{why}: restart failed: {e:?}")));
                false
            }
            Ok(t) => {
                if t.tower_pk.serialize().to_vec() != self.tower_id {
                    self.violations.push(viol("tower-id-changed", format!("{why}: the tower came back with another id")));
                    return false;
                }
                self.tower = Some(t);
                self.failed_download_since_good_poll = false;
                self.crash_mid_poll = false;
                self.track();
                true
            }
        }
    }

    fn mine_one(&mut self, take: Take, extra: &[Transaction]) {
        let tracked: BTreeSet<Txid> = match &self.tower {
            Some(t) => t
                .snapshot()
                .trackers
                .values()
                .filter_map(|r| bitcoin::consensus::deserialize::<Transaction>(&r.penalty_tx).ok())
                .map(|t| t.compute_txid())
                .collect(),
            None => BTreeSet::new(),
        };
        let mut st = self.node.lock();
        match take {
            Take::All => st.mine(&|_, _| true, extra),
            Take::None => st.mine(&|_, _| false, extra),
            Take::NoPenalties => st.mine(&|_, t| !tracked.contains(&t.compute_txid()), extra),
        };
    }

    /// Executes one op. Returns Err(tag) if the armed crash point fired inside it.
    fn step(&mut self, op: &Op) -> Result<(), String> {
        let crashed = |r: &Result<(), String>| matches!(r, Err(m) if m == faults::CRASH);
        match op {
            Op::Register { u } => {
                let r = self.tower.as_ref().unwrap().register(user_pk(*u).serialize().to_vec()).map(|_| ());
                if crashed(&r) {
                    return r;
                }
                if let Err(p) = r {
                    self.violations.push(Violation { property: "C11".into(), signature: crate::panics::signature(&p), message: format!("register aborted: {p}") });
                }
            }
            Op::Add { u, chan, dvar, blob, delay, sig } => {
                let dispute = txs::dispute(SALT, *chan as u32, *dvar as u32);
                let locator = Locator::new(dispute.compute_txid());
                let blob_bytes = blob_of(*blob, &dispute);
                let appt = Appointment::new(locator.real(), blob_bytes.clone(), *delay);
                let sigs = make_sig(*sig, ReqKind::Add, &appt.to_vec(), *u, &locator);
                let r = self.tower.as_ref().unwrap().add_appointment(locator.to_vec(), blob_bytes, *delay, sigs).map(|_| ());
                if crashed(&r) {
                    return r;
                }
                if let Err(p) = r {
                    self.violations.push(Violation { property: "C11".into(), signature: crate::panics::signature(&p), message: format!("add_appointment aborted: {p}") });
                }
            }
            Op::Get { .. } | Op::SubInfo { .. } => {}
            Op::Broadcast(r) => {
                let _ = self.node.lock().send_raw_transaction(&tx_of(*r));
            }
            Op::Mine { take, extra } => {
                let extra: Vec<Transaction> = extra.iter().map(|r| tx_of(*r)).collect();
                self.mine_one(*take, &extra);
            }
            Op::MineMany { n, take } => {
                for _ in 0..*n {
                    self.mine_one(*take, &[]);
                }
            }
            Op::Reorg { depth, extra, first, later_at, later, evict } => {
                let depth = (*depth as usize).min(self.node.lock().active.len().saturating_sub(3));
                let n_new = depth + *extra as usize;
                let mut contents: Vec<Vec<Transaction>> = vec![vec![]; n_new];
                contents[0] = first.iter().map(|r| tx_of(*r)).collect();
                let at = (1 + *later_at as usize).min(n_new - 1);
                contents[at].extend(later.iter().map(|r| tx_of(*r)));
                // a lossy reorg is only lossy while the runs that will be compared are still in step (no crash / catch-up yet):
                // once a crash has shifted the timing, what sits in the disconnected blocks legitimately differs between them
                self.node.lock().reorg(depth, &contents, *evict && self.lossy_allowed);
            }
            Op::Poll => {
                let r = self.tower.as_mut().unwrap().poll();
                self.track();
                if crashed(&r) {
                    self.crash_mid_poll = true;
                    return r;
                }
                if let Err(p) = r {
                    self.violations.push(Violation { property: "C11".into(), signature: crate::panics::signature(&p), message: format!("chain processing aborted: {p}") });
                } else {
                    self.failed_download_since_good_poll = false;
                }
            }
            Op::PollFail { nth, persistent } => {
                {
                    let mut st = self.node.lock();
                    st.fault.get_block_calls = 0;
                    st.fault.fail_get_block_nth = Some((*nth as usize, *persistent));
                }
                let r = self.tower.as_mut().unwrap().poll();
                let hit = self.node.lock().fault.fail_get_block_nth.take().is_none();
                self.track();
                if hit {
                    self.failed_download_since_good_poll = true;
                    self.failed_polls += 1;
                }
                if crashed(&r) {
                    self.crash_mid_poll = true;
                    return r;
                }
                if let Err(p) = r {
                    self.violations.push(Violation { property: "C11".into(), signature: crate::panics::signature(&p), message: format!("chain processing aborted: {p}") });
                }
            }
            Op::SetPolicy { tx, code } => {
                let txid = tx_of(*tx).compute_txid();
                let mut st = self.node.lock();
                match code {
                    Some(c) => {
                        st.policy.insert(txid, *c);
                    }
                    None => {
                        st.policy.remove(&txid);
                    }
                }
            }
            Op::Restart => {
                if !self.restart("restart at a quiet moment", 0) {
                    return Ok(());
                }
            }
        }
        Ok(())
    }

    fn abstract_state(&self) -> Abstract {
        let snap = self.tower.as_ref().unwrap().snapshot();
        let mut a = Abstract::default();
        a.users = snap.users.clone();
        for (uuid, r) in &snap.appointments {
            a.appts.insert(uuid.clone(), (r.user_id.clone(), r.blob.clone(), r.delay));
        }
        for (uuid, r) in &snap.trackers {
            a.trackers.insert(uuid.clone(), (r.dispute_tx.clone(), r.penalty_tx.clone(), r.confirmed));
            if r.confirmed {
                a.conf_heights.insert(uuid.clone(), r.height);
            }
        }
        let st = self.node.lock();
        a.tip = st.tip_height();
        for c in 0..8u8 {
            for d in 0..2u8 {
                let dtx = txs::dispute(SALT, c as u32, d as u32);
                for l in 0..VALID_LENS.len() as u8 {
                    for v in 0..2u8 {
                        let p = tx_of(TxRef::Penalty(c, d, l, v));
                        let _ = &dtx;
                        if st.knows(&p.compute_txid()) {
                            a.node_penalties.insert(p.compute_txid());
                        }
                    }
                }
            }
        }
        a
    }
}

/// Runs the history, optionally killing the tower at the `crash_at`-th crash point, optionally leaving one op out.
/// `variant`: None = H as is; Some((k, skip)) = a restart-equivalent catch-up poll is inserted at op k, which is
/// left out when `skip` (the reference runs for a crash inside op k).
pub fn execute(h: &History, crash_at: u64, variant: Option<(usize, bool)>, down_blocks: u8, tag: &str) -> Outcome {
    let mut ex = match Exec::new(h, tag) {
        Ok(e) => e,
        Err(v) => {
            return Outcome { fin: Abstract::default(), crash: None, violations: vec![v], points: 0, tags: vec![], restarts: 0, failed_download_polls: 0, row_at_crash: None, already_in_chain: BTreeSet::new() };
        }
    };
    faults::begin(crash_at);
    let mut crash = None;
    let mut row_at_crash = None;
    for (i, op) in h.ops.iter().enumerate() {
        if !ex.violations.is_empty() || ex.tower.is_none() {
            break;
        }
        if let Some((k, skip)) = variant {
            if i == k {
                ex.lossy_allowed = false;
                if !skip {
                    let _ = ex.step(op);
                }
                for _ in 0..down_blocks {
                    ex.mine_one(Take::All, &[]);
                }
                let _ = ex.step(&Op::Poll);
                continue;
            }
        }
        if let Err(_) = ex.step(op) {
            let tag = faults::fired().unwrap_or("?");
            crash = Some(CrashInfo { op_idx: i, tag, n: crash_at });
            ex.lossy_allowed = false;
            ex.tower = None;
            let snap = Snapshot::read(&ex.dir.join("teos_db.sql3"));
            row_at_crash = Some(snap.appointments.iter().map(|(k, r)| (k.clone(), r.blob.len())).collect());
            if !ex.restart(&format!("crash at point #{crash_at} ({tag}) inside op #{i} {op:?}"), down_blocks) {
                break;
            }
        }
    }
    let (points, tags) = faults::end();
    // settle: catch up, let pending penalties confirm, catch up again
    let mut fin = Abstract::default();
    if ex.violations.is_empty() && ex.tower.is_some() {
        let mut ok = true;
        // after a lossy reorg the node may have lost a penalty that sits in no disconnected block (its parent went away);
        // the tower puts it back with its periodic re-broadcast, a few blocks later: give every run that long
        let rounds = if h.ops.iter().any(|o| matches!(o, Op::Reorg { evict: true, .. })) { 9 } else { 2 };
        for _ in 0..rounds {
            if let Err(p) = ex.tower.as_mut().unwrap().poll() {
                ex.violations.push(Violation { property: "C11".into(), signature: crate::panics::signature(&p), message: format!("chain processing aborted: {p}") });
                ok = false;
                break;
            }
            ex.track();
            ex.mine_one(Take::All, &[]);
        }
        if ok {
            if let Err(p) = ex.tower.as_mut().unwrap().poll() {
                ex.violations.push(Violation { property: "C11".into(), signature: crate::panics::signature(&p), message: format!("chain processing aborted: {p}") });
            } else {
                ex.track();
                fin = ex.abstract_state();
                // a tracker says "the penalty has been handed to the node": whatever was interrupted, the node must at least
                // have seen that transaction once (it may have lost it since; that is what re-broadcasts are for)
                if crash.is_some() {
                    let st = ex.node.lock();
                    for (uuid, (_, penalty, _)) in &fin.trackers {
                        if let Ok(tx) = bitcoin::consensus::deserialize::<Transaction>(penalty) {
                            if !st.ever_known.contains(&tx.compute_txid()) {
                                ex.violations.push(viol("responded-without-penalty-after-crash", format!("after the crash and restart the tower holds a tracker for appointment {} (reported as dispute_responded) whose penalty {} the node has never been given", &hex::encode(&uuid[..4]), tx.compute_txid())));
                                break;
                            }
                        }
                    }
                }
            }
        }
    }
    let out = Outcome {
        fin,
        crash,
        violations: std::mem::take(&mut ex.violations),
        points,
        tags,
        restarts: ex.restarts,
        failed_download_polls: ex.failed_polls,
        row_at_crash,
        already_in_chain: ex.already_in_chain.clone(),
    };
    ex.tower = None;
    let _ = std::fs::remove_dir_all(&ex.dir);
    out
}

fn diff_desc(a: &Abstract, b: &Abstract) -> String {
    let mut d = vec![];
    for (k, v) in &a.users {
        match b.users.get(k) {
            None => d.push(format!("user {} only in crashed run", &hex::encode(k)[..8])),
            Some(w) if w != v => d.push(format!("user {}: (slots,start,expiry) {v:?} vs {w:?}", &hex::encode(k)[..8])),
            _ => {}
        }
    }
    for k in b.users.keys() {
        if !a.users.contains_key(k) {
            d.push(format!("user {} missing in crashed run", &hex::encode(k)[..8]));
        }
    }
    for k in a.appts.keys() {
        if !b.appts.contains_key(k) {
            d.push(format!("appointment {} only in crashed run", &hex::encode(k)[..8]));
        }
    }
    for (k, v) in &b.appts {
        match a.appts.get(k) {
            None => d.push(format!("appointment {} missing in crashed run", &hex::encode(k)[..8])),
            Some(w) if w != v => d.push(format!("appointment {} has other contents", &hex::encode(k)[..8])),
            _ => {}
        }
    }
    for k in a.trackers.keys() {
        if !b.trackers.contains_key(k) {
            d.push(format!("tracker {} only in crashed run", &hex::encode(k)[..8]));
        }
    }
    for (k, v) in &b.trackers {
        match a.trackers.get(k) {
            None => d.push(format!("tracker {} missing in crashed run", &hex::encode(k)[..8])),
            Some(w) if w != v => d.push(format!("tracker {} differs (confirmed {} vs {})", &hex::encode(k)[..8], w.2, v.2)),
            _ => {}
        }
    }
    for t in a.node_penalties.symmetric_difference(&b.node_penalties) {
        d.push(format!("penalty {t} known to the node in only one of the runs"));
    }
    d.join("; ")
}

/// Is `c` (crashed run) acceptable against reference `r`, ignoring the in-flight request's own key?
/// Slots of the in-flight user may be lower by at most `max_cost`, never higher.
fn acceptable(c: &Abstract, r: &Abstract, inflight: Option<(&Vec<u8>, &Vec<u8>, u32)>, touched_later: bool) -> Result<(), String> {
    let mut c2 = c.clone();
    let mut r2 = r.clone();
    if let Some((uuid, user, max_cost)) = inflight {
        if touched_later {
            // later requests on the same appointment legitimately fare differently once the in-flight one is half done
            // (refused for lack of the lost slot, charged as new instead of as update): the user's balance is then only
            // held to the upper bound checked for every user (never more than granted)
            if let Some(ru) = r2.users.get(user).cloned() {
                if c2.users.contains_key(user) {
                    c2.users.insert(user.clone(), ru);
                }
            }
        }
        c2.appts.remove(uuid);
        r2.appts.remove(uuid);
        c2.trackers.remove(uuid);
        r2.trackers.remove(uuid);
        // the penalty of the in-flight request may or may not have reached the node
        c2.node_penalties.clear();
        r2.node_penalties.clear();
        if let (Some(cu), Some(ru)) = (c2.users.get(user).cloned(), r2.users.get(user).cloned()) {
            if cu.0 > ru.0 {
                return Err(format!("the crash granted slots: user has {} available, {} in the uninterrupted run", cu.0, ru.0));
            }
            if ru.0 - cu.0 > max_cost {
                return Err(format!("the crash cost the user {} slots, more than the {max_cost} of the request in flight", ru.0 - cu.0));
            }
            c2.users.insert(user.clone(), ru);
        }
    }
    if c2 == r2 {
        Ok(())
    } else {
        Err(diff_desc(&c2, &r2))
    }
}

/// The user an add_appointment request authenticates as (the signer), if any.
fn add_owner(users: u8, u: u8, chan: u8, dvar: u8, blob: BlobKind, delay: u32, sig: SigKind) -> Option<u8> {
    let dispute = txs::dispute(SALT, chan as u32, dvar as u32);
    let locator = Locator::new(dispute.compute_txid());
    let appt = Appointment::new(locator.real(), blob_of(blob, &dispute), delay);
    let msg = appt.to_vec();
    let s = make_sig(sig, ReqKind::Add, &msg, u, &locator);
    signer_of(&msg, &s, users).map(|x| x as u8)
}

/// Appointments whose penalty the node reported as 'already in block chain' in the crashed run: the properties
/// leave open whether the tower then tracks them (it does not), so only "the appointment is not dropped" is kept.
fn normalise_already_in_chain(c: &Abstract, r: &Abstract, already: &BTreeSet<Txid>, touched_later: &BTreeSet<Vec<u8>>, submitted: &[(Vec<u8>, Vec<u8>, Vec<u8>)]) -> Result<(Abstract, Abstract), String> {
    if already.is_empty() {
        return Ok((c.clone(), r.clone()));
    }
    let mut c2 = c.clone();
    let mut r2 = r.clone();
    let mut keys: BTreeMap<Vec<u8>, (Vec<u8>, usize)> = BTreeMap::new();
    // every appointment ever submitted in this history whose penalty got that verdict
    for (uuid, user, blob) in submitted {
        for ch in 0..8u32 {
            for d in 0..2u32 {
                let dtx = txs::dispute(SALT, ch, d);
                if let Ok(p) = cryptography::decrypt(blob, &dtx.compute_txid()) {
                    if already.contains(&p.compute_txid()) {
                        keys.insert(uuid.clone(), (user.clone(), blob.len()));
                    }
                }
            }
        }
    }
    for (uuid, (user, len)) in keys {
        if let Some(row) = r.appts.get(&uuid) {
            if c.appts.get(&uuid) != Some(row) && !touched_later.contains(&uuid) {
                return Err(format!("appointment {} was dropped (or altered) although the node only said its penalty is already in the chain", &hex::encode(&uuid)[..8]));
            }
        }
        c2.appts.remove(&uuid);
        r2.appts.remove(&uuid);
        c2.trackers.remove(&uuid);
        r2.trackers.remove(&uuid);
        if touched_later.contains(&uuid) {
            // a later version of this appointment is responded to in one run and refused in the other
            c2.node_penalties.clear();
            r2.node_penalties.clear();
        }
        // the untracked appointment is never refunded
        if let (Some(cu), Some(ru)) = (c2.users.get(&user).cloned(), r2.users.get(&user).cloned()) {
            if (cu.0 <= ru.0 && ru.0 - cu.0 <= spec_slots(len)) || touched_later.contains(&uuid) {
                // (a later request for this very appointment is served differently when it is not tracked:
                // refused as already triggered in one run, charged in the other)
                c2.users.insert(user.clone(), ru);
            }
        }
    }
    Ok((c2, r2))
}

pub struct C03 {
    pub findings: Vec<crate::known::Finding>,
}
#[derive(Debug, Clone, serde::Serialize, serde::Deserialize)]
pub struct Case {
    pub h: History,
    /// blocks mined while the tower is down after the crash
    pub down_blocks: u8,
}

/// Ops that bring one appointment of user 0 to `left` blocks before its 100th confirmation.
fn near_completion_prefix(left: u8) -> Vec<Op> {
    vec![
        Op::Register { u: 0 },
        Op::Add { u: 0, chan: 0, dvar: 0, blob: BlobKind::Valid { len: 0, var: 0 }, delay: 42, sig: SigKind::Good },
        Op::Mine { take: Take::All, extra: vec![TxRef::Dispute(0, 0)] },
        Op::Poll,
        Op::Mine { take: Take::All, extra: vec![] },
        Op::Poll,
        Op::MineMany { n: 100 - left, take: Take::All },
        Op::Poll,
    ]
}

impl Campaign for C03 {
    type Case = Case;
    fn name(&self) -> &str {
        "C03"
    }
    fn strategy(&self) -> BoxedStrategy<Case> {
        let plain = history(Profile::Crash, 14);
        // a third of the histories start with a tracker a few blocks away from completion
        let near = (history(Profile::Crash, 8), 1u8..4).prop_map(|(mut h, left)| {
            let mut ops = near_completion_prefix(left);
            // the completion moves by the blocks the tower is down: later requests for that same appointment would
            // legitimately fare differently, so the random tail works on the other channels
            h.chans = h.chans.max(2);
            ops.extend(h.ops.drain(..).skip(1).map(|o| match o {
                Op::Add { u, chan: 0, dvar: 0, blob, delay, sig } => Op::Add { u, chan: 1, dvar: 0, blob, delay, sig },
                o => o,
            }));
            h.ops = ops;
            h.cfg.duration = 5000;
            h
        });
        (prop_oneof![2 => plain, 1 => near], prop_oneof![3 => Just(0u8), 2 => Just(1u8), 1 => Just(2u8)])
            .prop_map(|(h, down_blocks)| Case { h, down_blocks })
            .boxed()
    }
    fn run_case(&self, case: &Case, w: usize) -> CaseReport {
        let h = &case.h;
        let db = case.down_blocks;
        let tag = format!("c03-{w}");
        let mut rep = CaseReport::default();
        let reference = execute(h, 0, None, 0, &tag);
        if !reference.violations.is_empty() {
            rep.violations = reference.violations;
            return rep;
        }
        let n_points = reference.points;
        let mut tags_hit: BTreeSet<String> = BTreeSet::new();
        let mut crash_runs = 0u64;
        let mut inflight_api = 0u64;
        let mut mid_poll = 0u64;
        let mut minus_cache: BTreeMap<usize, Abstract> = BTreeMap::new();
        let mut full_cache: BTreeMap<usize, Abstract> = BTreeMap::new();
        for n in 1..=n_points {
            let out = execute(h, n, None, db, &tag);
            crash_runs += 1;
            if !out.violations.is_empty() {
                let all_known = out.violations.iter().all(|v| crate::known::is_known(&self.findings, &v.property, &v.signature).is_some());
                for v in out.violations {
                    if !rep.violations.iter().any(|w| w.signature == v.signature) {
                        rep.violations.push(v);
                    }
                }
                if all_known {
                    continue; // a recorded finding: counted by the runner, the search goes on behind it
                }
                break;
            }
            let ci = match &out.crash {
                Some(c) => c.clone(),
                None => continue, // the point was not reached (e.g. it lay in a part not re-executed)
            };
            let op = &h.ops[ci.op_idx];
            tags_hit.insert(format!("{}@{}", ci.tag, match op { Op::Add { .. } => "add", Op::Register { .. } => "register", Op::Poll | Op::PollFail { .. } => "poll", Op::Restart => "restart", _ => "other" }));
            // never grants slots: nobody ends up with more (available + held) than registrations ever granted
            let mut granted_violation = None;
            for u in 0..h.users {
                let pk = user_pk(u).serialize().to_vec();
                if let Some(row) = out.fin.users.get(&pk) {
                    let regs = h.ops.iter().filter(|o| matches!(o, Op::Register { u: x } if *x == u)).count() as u64;
                    let held: u64 = out.fin.appts.values().filter(|a| a.0 == pk).map(|a| spec_slots(a.1.len()) as u64).sum();
                    if row.0 as u64 + held > regs * h.cfg.slots as u64 {
                        granted_violation = Some(format!("the crash granted slots: user {u} ends with {} available + {held} held, but was granted {} by {regs} registrations", row.0, regs * h.cfg.slots as u64));
                    }
                }
            }
            if let Some(e) = granted_violation {
                let kind = match op {
                    Op::Add { u, chan, dvar, blob, delay, sig } => {
                        let dispute = txs::dispute(SALT, *chan as u32, *dvar as u32);
                        let owner = add_owner(h.users, *u, *chan, *dvar, *blob, *delay, *sig).unwrap_or(*u);
                        let uuid = crate::model::uuid_of(&Locator::new(dispute.compute_txid()), &user_pk(owner));
                        let cost = spec_slots(blob_of(*blob, &dispute).len());
                        match out.row_at_crash.as_ref().and_then(|rows| rows.get(&uuid)) {
                            None => "add-new".to_string(),
                            Some(len) if spec_slots(*len) > cost => "add-update-shrink".to_string(),
                            Some(len) if spec_slots(*len) < cost => "add-update-grow".to_string(),
                            Some(_) => "add-update-same-size".to_string(),
                        }
                    }
                    Op::Register { .. } => "register".to_string(),
                    Op::Poll | Op::PollFail { .. } => format!("poll:{}", ci.tag),
                    Op::Restart => format!("restart:{}", ci.tag),
                    _ => format!("other:{}", ci.tag),
                };
                let v = viol(&format!("crash-grants-slots:{kind}"), format!("crash at point #{n} ({}) inside op #{} {:?}, then restart: {e}", ci.tag, ci.op_idx, op));
                let is_known = crate::known::is_known(&self.findings, &v.property, &v.signature).is_some();
                if !rep.violations.iter().any(|w| w.signature == v.signature) {
                    rep.violations.push(v);
                }
                if !is_known {
                    break;
                }
                continue;
            }
            // the restart catches up with the chain, so the run to compare with has a poll at that place
            let full = full_cache.entry(ci.op_idx).or_insert_with(|| execute(h, 0, Some((ci.op_idx, false)), db, &tag).fin).clone();
            if out.fin == full {
                continue;
            }
            let slack = db as u32 + 3;
            let already = out.already_in_chain.clone();
            // What the tower does with an appointment whose penalty the node reports as already in the chain is left open by
            // the properties (DESIGN 9.1); if a lossy reorg then takes that very block away the two runs part for good.
            if !already.is_empty() && h.ops[ci.op_idx..].iter().any(|o| matches!(o, Op::Reorg { evict: true, .. })) {
                rep.classes.push("lossy-reorg-after-an-already-in-chain-verdict(not judged)".into());
                continue;
            }
            // (the in-flight request itself counts: its own appointment may be half replaced)
            let later_uuids: BTreeSet<Vec<u8>> = h.ops[ci.op_idx..]
                .iter()
                .filter_map(|o| match o {
                    Op::Add { u, chan, dvar, blob, delay, sig } => add_owner(h.users, *u, *chan, *dvar, *blob, *delay, *sig)
                        .map(|owner| crate::model::uuid_of(&Locator::new(txs::dispute(SALT, *chan as u32, *dvar as u32).compute_txid()), &user_pk(owner))),
                    _ => None,
                })
                .collect();
            let submitted: Vec<(Vec<u8>, Vec<u8>, Vec<u8>)> = h
                .ops
                .iter()
                .filter_map(|o| match o {
                    Op::Add { u, chan, dvar, blob, delay, sig } => add_owner(h.users, *u, *chan, *dvar, *blob, *delay, *sig).map(|owner| {
                        let dispute = txs::dispute(SALT, *chan as u32, *dvar as u32);
                        (crate::model::uuid_of(&Locator::new(dispute.compute_txid()), &user_pk(owner)), user_pk(owner).serialize().to_vec(), blob_of(*blob, &dispute))
                    }),
                    _ => None,
                })
                .collect();
            let norm = |c: &Abstract, r: &Abstract| -> Result<(Abstract, Abstract), String> {
                let c1 = normalise_completion(c, r, slack);
                normalise_already_in_chain(&c1, r, &already, &later_uuids, &submitted)
            };
            let (c_full, r_full) = match norm(&out.fin, &full) {
                Ok(x) => x,
                // an in-flight request that was lost altogether: the run to compare with is the one without it (a lost renewal
                // lets the user expire, and with the user go their appointments - "its owner expired")
                Err(_) if matches!(op, Op::Register { .. }) && {
                    let minus = minus_cache.entry(ci.op_idx).or_insert_with(|| execute(h, 0, Some((ci.op_idx, true)), db, &tag).fin).clone();
                    matches!(norm(&out.fin, &minus), Ok((c_m, r_m)) if c_m == r_m)
                } =>
                {
                    inflight_api += 1;
                    rep.classes.push("in-flight-renewal-lost".into());
                    continue;
                }
                Err(e) => {
                    let v = viol(&format!("appointment-dropped-on-already-in-chain:{}", match op { Op::Poll | Op::PollFail { .. } => "poll", Op::Add { .. } => "add", _ => "other" }), format!("crash at point #{n} ({}) inside op #{} {:?}, then restart: {e}", ci.tag, ci.op_idx, op));
                    let is_known = crate::known::is_known(&self.findings, &v.property, &v.signature).is_some();
                    if !rep.violations.iter().any(|w| w.signature == v.signature) {
                        rep.violations.push(v);
                    }
                    if !is_known {
                        break;
                    }
                    continue;
                }
            };
            if !already.is_empty() {
                rep.classes.push("already-in-chain-verdict-after-restart".into());
            }
            if c_full == r_full {
                if normalise_completion(&out.fin, &full, slack) != out.fin {
                    rep.classes.push("completion-shifted-by-downtime".into());
                }
                continue;
            }
            // not identical to the uninterrupted run: only an in-flight API request may explain it
            let mut add_kind = "";
            let verdict: Result<(), String> = match op {
                Op::Add { u, chan, dvar, blob, delay, sig } => {
                    inflight_api += 1;
                    let dispute = txs::dispute(SALT, *chan as u32, *dvar as u32);
                    let locator = Locator::new(dispute.compute_txid());
                    let owner = add_owner(h.users, *u, *chan, *dvar, *blob, *delay, *sig).unwrap_or(*u);
                    let uuid = crate::model::uuid_of(&locator, &user_pk(owner));
                    let user = user_pk(owner).serialize().to_vec();
                    let cost = spec_slots(blob_of(*blob, &dispute).len());
                    let touched_later = h.ops[ci.op_idx + 1..].iter().any(|o| match o {
                        Op::Add { u: u2, chan: c2, dvar: d2, blob: b2, delay: dl2, sig: s2 } => c2 == chan && d2 == dvar && add_owner(h.users, *u2, *c2, *d2, *b2, *dl2, *s2) == Some(owner),
                        _ => false,
                    });
                    if touched_later {
                        rep.classes.push("in-flight-appointment-touched-again-later".into());
                    }
                    add_kind = match out.row_at_crash.as_ref().and_then(|rows| rows.get(&uuid)) {
                        None => "add-new",
                        Some(len) if spec_slots(*len) > cost => "add-update-shrink",
                        Some(len) if spec_slots(*len) < cost => "add-update-grow",
                        Some(_) => "add-update-same-size",
                    };
                    let minus = minus_cache.entry(ci.op_idx).or_insert_with(|| execute(h, 0, Some((ci.op_idx, true)), db, &tag).fin).clone();
                    acceptable(&c_full, &r_full, Some((&uuid, &user, cost)), touched_later).or_else(|e1| {
                        norm(&out.fin, &minus)
                            .and_then(|(c_m, r_m)| acceptable(&c_m, &r_m, Some((&uuid, &user, cost)), touched_later))
                            .map_err(|e2| format!("vs uninterrupted run: {e1} | vs run without the request: {e2}"))
                    })
                }
                Op::Register { .. } => {
                    inflight_api += 1;
                    let minus = minus_cache.entry(ci.op_idx).or_insert_with(|| execute(h, 0, Some((ci.op_idx, true)), db, &tag).fin).clone();
                    match norm(&out.fin, &minus) {
                        Ok((c_m, r_m)) if c_m == r_m => Ok(()),
                        Ok((c_m, r_m)) => Err(format!("vs uninterrupted run: {} | vs run without the request: {}", diff_desc(&c_full, &r_full), diff_desc(&c_m, &r_m))),
                        Err(e) => Err(e),
                    }
                }
                _ => {
                    mid_poll += 1;
                    // A crash shifts a response by the blocks mined meanwhile, and with it the block at which the tracker
                    // completes. A request made about a hundred blocks later for that very appointment then meets a
                    // finished (deleted, refunded) appointment in one run and a live one in the other: accepted as new
                    // here, refused as already triggered there. Differences confined to appointments that are submitted
                    // again that late are not judged.
                    let blocks_later: u32 = h.ops[ci.op_idx..].iter().map(|o| match o {
                        Op::Mine { .. } => 1,
                        Op::MineMany { n, .. } => *n as u32,
                        Op::Reorg { extra, .. } => *extra as u32,
                        _ => 0,
                    }).sum();
                    let mut c3 = c_full.clone();
                    let mut r3 = r_full.clone();
                    for uuid in &later_uuids {
                        c3.appts.remove(uuid);
                        r3.appts.remove(uuid);
                        c3.trackers.remove(uuid);
                        r3.trackers.remove(uuid);
                    }
                    c3.node_penalties.clear();
                    r3.node_penalties.clear();
                    c3.users = r3.users.clone();
                    if blocks_later >= 95 && !later_uuids.is_empty() && c3 == r3 {
                        rep.classes.push("re-submission-races-a-completion-shifted-by-the-crash(not judged)".into());
                        Ok(())
                    } else {
                        Err(diff_desc(&c_full, &r_full))
                    }
                }
            };
            if let Err(e) = verdict {
                if std::env::var("VERIF_DEBUG").is_ok() {
                    let show = |n: &str, a: &Abstract| {
                        eprintln!("--- {n}: users {:?}", a.users.values().collect::<Vec<_>>());
                        eprintln!("    appts {:?}", a.appts.keys().map(|k| hex::encode(&k[..4])).collect::<Vec<_>>());
                        eprintln!("    trackers {:?} conf {:?} tip {}", a.trackers.iter().map(|(k, v)| (hex::encode(&k[..4]), v.2)).collect::<Vec<_>>(), a.conf_heights.values().collect::<Vec<_>>(), a.tip);
                        eprintln!("    node penalties {:?}", a.node_penalties);
                    };
                    show("crashed", &out.fin);
                    show("full", &full);
                    if let Some(m) = minus_cache.get(&ci.op_idx) {
                        show("minus", m);
                    }
                    show("reference(H)", &reference.fin);
                }
                let granted = e.contains("granted slots");
                let v = viol(
                    &format!(
                        "{}:{}{}",
                        if granted { "crash-grants-slots" } else { "diverges-from-uninterrupted-run" },
                        match op { Op::Add { .. } => add_kind, Op::Register { .. } => "register", Op::Poll | Op::PollFail { .. } => "poll", Op::Restart => "restart", _ => "other" },
                        // inside a request the two sides of one missing transaction boundary are one root cause
                        match op { Op::Add { .. } | Op::Register { .. } => String::new(), _ => format!(":{}", ci.tag) }
                    ),
                    format!("crash at point #{n} ({}) inside op #{} {:?}, then restart: final state differs — {e}", ci.tag, ci.op_idx, op),
                );
                let is_known = crate::known::is_known(&self.findings, &v.property, &v.signature).is_some();
                if !rep.violations.iter().any(|w| w.signature == v.signature) {
                    rep.violations.push(v);
                }
                if !is_known {
                    break;
                }
            }
        }
        if db > 0 {
            rep.classes.push("blocks-mined-while-tower-down".into());
        }
        if reference.restarts > 0 {
            rep.classes.push("restart-at-quiet-moment".into());
        }
        if reference.failed_download_polls > 0 {
            rep.classes.push("poll-with-failed-block-download".into());
        }
        for t in &tags_hit {
            rep.classes.push(format!("crash:{t}"));
        }
        if !reference.fin.trackers.is_empty() {
            rep.classes.push("responded-appointment-at-end".into());
        }
        rep.counters = vec![("crash_runs".into(), crash_runs), ("crash_points".into(), n_points), ("inflight_api_explained".into(), inflight_api), ("mid_poll_divergences".into(), mid_poll)];
        rep.nontrivial = tags_hit.iter().any(|t| t.ends_with("@add") || t.ends_with("@poll"));
        rep.key = format!("{:?}", tags_hit);
        rep.sample = Some(json!({"cfg": h.cfg, "blocks_while_down": db, "ops": h.ops.iter().map(|o| format!("{o:?}")).collect::<Vec<_>>(), "crash_points": n_points, "crash_sites": tags_hit}));
        rep
    }
}

pub fn run(ctx: &Ctx) -> i32 {
    let started = Instant::now();
    if let Some(p) = &ctx.replay {
        crate::panics::VERBOSE.store(true, std::sync::atomic::Ordering::SeqCst);
        return runner::replay(&C03 { findings: crate::known::load() }, p);
    }
    let n = if ctx.thorough() { 1500 } else { 100 };
    let camp = C03 { findings: crate::known::load() };
    let regress = runner::replay_dir(&camp, "/verif/regress/c03", "");
    let replayed = regress.evaluations;
    let mut stats = if regress.failures.is_empty() { runner::run_campaign(&camp, ctx, n) } else { runner::Stats::default() };
    stats.merge(regress);
    let mut ev = Evidence::default();
    ev.extra.insert("regression_cases_replayed".into(), serde_json::json!(replayed));
    ev.level = "fault_enumeration".into();
    ev.rule = "histories of <=14 ops from profile `crash` (register/add/broadcast/mine/reorg (40% of them lossy: the node does not take the disconnected blocks' transactions back into its mempool; honoured only while no crash has shifted the timing yet)/poll/poll-with-failed-block-download/restart, growth up to 110 blocks); for each history EVERY crash point it passes (store/update/delete pre+post, batch-delete commit pre+post, sendrawtransaction pre+post) is armed in turn: the tower is dropped there (open transactions roll back) and rebooted on the same directory; restart invariants + final abstract state compared with the uninterrupted run (or the run without the in-flight request, partial states of that request tolerated, slot bounds enforced). evaluations = histories; counters.crash_runs = crashed executions. Non-trivial = a crash landed inside add_appointment or inside block processing; distinct = distinct sets of (crash site, op kind).".into();
    ev.assumptions = vec![
        "sqlite's own atomic commit and the file system are trusted (a crash never tears a single statement)".into(),
        "the tower is booted by a copy of main.rs's bootstrap".into(),
        "after the last op both runs get two more blocks and polls (nine after a lossy reorg, so that the periodic re-broadcast has happened), so pending penalties confirm; tracker heights are compared as confirmed/unconfirmed".into(),
    ];
    runner::conclude(ctx, "C03", stats, ev, started)
}

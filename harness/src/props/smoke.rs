use crate::runner::Ctx;
use crate::simnode::{txs, Node};
use crate::towerbox::{Tower, TowerCfg};
use bitcoin::secp256k1::{PublicKey, Secp256k1, SecretKey};
use teos_common::appointment::{Appointment, Locator};
use teos_common::cryptography;

pub fn run(_ctx: &Ctx) -> i32 {
    crate::panics::VERBOSE.store(true, std::sync::atomic::Ordering::SeqCst);
    let t0 = std::time::Instant::now();
    let node = Node::new(110, false);
    println!("node built {:?}", t0.elapsed());
    let dir = std::path::PathBuf::from(format!("/dev/shm/verif-smoke-{}", std::process::id()));
    let _ = std::fs::remove_dir_all(&dir);
    let t1 = std::time::Instant::now();
    let mut tower = Tower::boot(node.clone(), &dir, TowerCfg::default()).expect("boot");
    println!("boot {:?}", t1.elapsed());
    let sk = SecretKey::from_slice(&[7u8; 32]).unwrap();
    let pk = PublicKey::from_secret_key(&Secp256k1::new(), &sk);
    let r = tower.register(pk.serialize().to_vec()).unwrap().unwrap();
    println!("register: slots {} start {} expiry {}", r.available_slots, r.subscription_start, r.subscription_expiry);
    node.lock().funded.insert(txs::funding(1, 0));
    let d = txs::dispute(1, 0, 0);
    let p = txs::penalty(&d, 0, 0);
    let blob = cryptography::encrypt(&p, &d.compute_txid()).unwrap();
    let loc = Locator::new(d.compute_txid());
    let appt = Appointment::new(loc, blob.clone(), 42);
    let sig = cryptography::sign(&appt.to_vec(), &sk);
    let t2 = std::time::Instant::now();
    let a = tower.add_appointment(loc.to_vec(), blob, 42, sig).unwrap().unwrap();
    println!("add: start_block {} slots {} ({:?})", a.start_block, a.available_slots, t2.elapsed());
    let from = node.log_len();
    node.lock().mine(&|_, _| true, &[d.clone()]);
    let t3 = std::time::Instant::now();
    tower.poll().unwrap();
    println!("poll {:?}", t3.elapsed());
    for e in node.log_since(from) {
        println!("  {:?} -> {:?}", e.call, e.verdict);
    }
    let gsig = cryptography::sign(format!("get appointment {loc}").as_bytes(), &sk);
    let g = tower.get_appointment(loc.to_vec(), gsig).unwrap().unwrap();
    println!("get: status {}", g.status);
    let snap = tower.snapshot();
    println!("snapshot: users {} appts {} trackers {} fk {}", snap.users.len(), snap.appointments.len(), snap.trackers.len(), snap.fk_violations);
    let t4 = std::time::Instant::now();
    for _ in 0..100 {
        node.lock().mine(&|_, _| true, &[]);
        tower.poll().unwrap();
    }
    println!("100 mine+poll {:?}", t4.elapsed());
    let snap = tower.snapshot();
    println!("snapshot: users {:?} appts {} trackers {}", snap.users.values().collect::<Vec<_>>(), snap.appointments.len(), snap.trackers.len());
    drop(tower);
    let t5 = std::time::Instant::now();
    let tower = Tower::boot(node.clone(), &dir, TowerCfg::default()).expect("reboot");
    println!("reboot {:?} id same: {}", t5.elapsed(), tower.tower_pk == tower.tower_pk);
    let _ = std::fs::remove_dir_all(&dir);
    0
}

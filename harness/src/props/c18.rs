//! C18 — client store is consistent, reloadable; abandon deletes exactly one tower.
//! The real WTClient (memory + sqlite) is driven in-process with the mutators the plugin's handlers and retriers
//! call, in the orders they call them; a map-based reference model is compared after every step against memory,
//! against the database read back, against a freshly re-opened client, and against the raw rows.

use std::collections::{BTreeMap, BTreeSet, HashMap, HashSet};
use std::path::PathBuf;
use std::time::Instant;

use proptest::prelude::*;
use serde::{Deserialize, Serialize};
use serde_json::json;
use tokio::sync::mpsc::unbounded_channel;

use teos_common::appointment::{Appointment, Locator};
use teos_common::receipts::{AppointmentReceipt, RegistrationReceipt};
use teos_common::{TowerId, UserId};
use watchtower_plugin::wt_client::{RevocationData, WTClient};
use watchtower_plugin::{MisbehaviorProof, TowerStatus};

use crate::evidence::Evidence;
use crate::runner::{self, Campaign, CaseReport, Ctx, Violation};
use crate::simnode::txs;
use crate::world::{scratch_dir, user_pk, user_sk, SALT};

#[derive(Debug, Clone, Copy, Serialize, Deserialize, PartialEq, Eq)]
pub enum Op {
    /// first registration or a renewal that extends slots and expiry
    Register { t: u8 },
    /// a renewal receipt that does not extend (expiry and/or slots not larger): must be refused and change nothing
    StaleRenewal { t: u8, which: u8 },
    /// tower accepted straight away (notification path)
    Accepted { t: u8, l: u8 },
    /// tower unreachable / subscription error: stored as pending
    Pending { t: u8, l: u8, subscription: bool },
    /// tower rejected straight away
    Invalid { t: u8, l: u8 },
    /// retrier: pending -> accepted (receipt first, then the pending entry goes)
    PendingToAccepted { t: u8, l: u8 },
    /// retrier: pending -> invalid (invalid first, then the pending entry goes)
    PendingToInvalid { t: u8, l: u8 },
    /// the receipt for locator l was signed by another key
    Misbehaved { t: u8, l: u8 },
    Abandon { t: u8 },
    /// a retrier's request was in flight when the tower was abandoned; the reply (acceptance or rejection) is
    /// handled afterwards exactly as the retrier does, against a tower the client no longer knows
    LateReply { t: u8, l: u8, accepted: bool },
}

#[derive(Debug, Clone, Serialize, Deserialize)]
pub struct Case {
    pub towers: u8,
    pub locators: u8,
    pub ops: Vec<Op>,
    /// slots a (re-)registration adds: with 1 or 2 a tower runs out of slots after a receipt or two
    #[serde(default = "default_grant")]
    pub grant: u32,
}

fn default_grant() -> u32 {
    100
}

#[derive(Debug, Clone, Default, PartialEq, Eq)]
struct MTower {
    net_addr: String,
    slots: u32,
    start: u32,
    expiry: u32,
    receipts: BTreeMap<u8, (u32, String, String)>,
    pending: BTreeSet<u8>,
    invalid: BTreeSet<u8>,
    proof: Option<(u8, u32, String, String)>,
    status: Option<&'static str>,
    n_regs: u32,
}

fn tower_id(t: u8) -> TowerId {
    TowerId(user_pk(20 + t))
}
fn locator(l: u8) -> Locator {
    Locator::new(txs::dispute(SALT, l as u32, 0).compute_txid())
}
fn appointment(l: u8) -> Appointment {
    Appointment::new(locator(l), (0..40u8).map(|i| i ^ l).collect(), 42)
}
fn status_name(s: TowerStatus) -> &'static str {
    match s {
        TowerStatus::Reachable => "reachable",
        TowerStatus::TemporaryUnreachable => "temporary_unreachable",
        TowerStatus::Unreachable => "unreachable",
        TowerStatus::SubscriptionError => "subscription_error",
        TowerStatus::Misbehaving => "misbehaving",
    }
}

fn v(sig: &str, msg: String) -> Violation {
    Violation { property: "C18".into(), signature: sig.into(), message: msg }
}

/// every table, every row, as strings
fn raw_dump(dir: &PathBuf) -> BTreeMap<String, Vec<String>> {
    let conn = rusqlite::Connection::open_with_flags(dir.join("watchtowers_db.sql3"), rusqlite::OpenFlags::SQLITE_OPEN_READ_ONLY).unwrap();
    let mut out = BTreeMap::new();
    for (table, cols) in [
        ("towers", "hex(tower_id), net_addr, available_slots"),
        ("appointments", "hex(locator), hex(encrypted_blob), to_self_delay"),
        ("pending_appointments", "hex(locator), hex(tower_id)"),
        ("invalid_appointments", "hex(locator), hex(tower_id)"),
        ("registration_receipts", "hex(tower_id), available_slots, subscription_start, subscription_expiry, signature"),
        ("appointment_receipts", "hex(locator), hex(tower_id), start_block, user_signature, tower_signature"),
        ("misbehaving_proofs", "hex(tower_id), hex(locator), hex(recovered_id)"),
    ] {
        let n = cols.split(", ").count();
        let mut st = conn.prepare(&format!("SELECT {cols} FROM {table}")).unwrap();
        let mut rows = st.query([]).unwrap();
        let mut v = vec![];
        while let Ok(Some(r)) = rows.next() {
            let mut fields = vec![];
            for i in 0..n {
                let x: rusqlite::types::Value = r.get(i).unwrap();
                fields.push(format!("{x:?}"));
            }
            v.push(fields.join("|"));
        }
        v.sort();
        out.insert(table.to_string(), v);
    }
    out
}

pub fn run_one(case: &Case, tag: &str) -> CaseReport {
    let mut rep = CaseReport::default();
    let rt = tokio::runtime::Builder::new_current_thread().enable_all().build().unwrap();
    let dir = scratch_dir(tag);
    let _ = std::fs::remove_dir_all(&dir);
    let (tx, mut _rx) = unbounded_channel();
    let mut client = rt.block_on(WTClient::new(dir.clone(), tx));
    let user_id = client.user_id;
    let mut model: BTreeMap<u8, MTower> = BTreeMap::new();
    let mut classes: BTreeSet<&'static str> = BTreeSet::new();
    let mut applied = 0u32;
    let mut skipped = 0u32;
    let mut shared_body = false;

    for (step, op) in case.ops.iter().enumerate() {
        let before_raw = if matches!(op, Op::Abandon { .. }) { raw_dump(&dir) } else { BTreeMap::new() };
        let mut did = true;
        match *op {
            Op::Register { t } => {
                let m = model.entry(t).or_default();
                if m.proof.is_some() {
                    did = false;
                } else {
                    m.n_regs += 1;
                    let (slots, start, expiry) = (m.slots + case.grant, 500 + m.n_regs, m.expiry.max(1000) + 1000);
                    let mut r = RegistrationReceipt::new(user_id, slots, start, expiry);
                    r.sign(&user_sk(20 + t));
                    let addr = format!("http://tower{t}.example:{}", 9814 + m.n_regs);
                    match client.add_update_tower(tower_id(t), &addr, &r) {
                        Ok(()) => {
                            if m.n_regs > 1 {
                                classes.insert("renewal");
                            }
                            m.net_addr = addr;
                            m.slots = slots;
                            m.start = start;
                            m.expiry = expiry;
                            if m.status.is_none() {
                                m.status = Some("reachable");
                            }
                        }
                        Err(e) => {
                            rep.violations.push(v("extending-registration-refused", format!("step {step} {op:?}: a receipt with more slots and a later expiry was refused: {e:?}")));
                            break;
                        }
                    }
                }
                if model.get(&t).map_or(false, |m| m.net_addr.is_empty()) {
                    model.remove(&t);
                }
            }
            Op::StaleRenewal { t, which } => match model.get(&t) {
                Some(m) if m.proof.is_none() => {
                    let (slots, expiry) = match which % 3 {
                        0 => (m.slots + 10, m.expiry),    // same expiry
                        1 => (m.slots, m.expiry + 10),    // same slots
                        _ => (m.slots.saturating_sub(1), m.expiry - 1), // both lower
                    };
                    let mut r = RegistrationReceipt::new(user_id, slots, 1, expiry);
                    r.sign(&user_sk(20 + t));
                    if client.add_update_tower(tower_id(t), "http://other.example:1", &r).is_ok() {
                        rep.violations.push(v("non-extending-registration-recorded", format!("step {step} {op:?}: a receipt that does not extend the known subscription (slots {slots} vs {}, expiry {expiry} vs {}) was recorded", m.slots, m.expiry)));
                        break;
                    }
                    classes.insert("non-extending-renewal-refused");
                }
                _ => did = false,
            },
            Op::Accepted { t, l } => match model.get_mut(&t) {
                Some(m) if m.slots > 0 && m.proof.is_none() && !m.receipts.contains_key(&l) && !m.pending.contains(&l) && !m.invalid.contains(&l) && m.status == Some("reachable") => {
                    let a = appointment(l);
                    let user_sig = teos_common::cryptography::sign(&a.to_vec(), &client.user_sk);
                    let mut r = AppointmentReceipt::new(user_sig.clone(), 700 + l as u32);
                    r.sign(&user_sk(20 + t));
                    m.slots -= 1;
                    client.add_appointment_receipt(tower_id(t), locator(l), m.slots, &r);
                    m.receipts.insert(l, (700 + l as u32, user_sig, r.signature().unwrap()));
                }
                _ => did = false,
            },
            Op::Pending { t, l, subscription } => match model.get_mut(&t) {
                Some(m) if m.proof.is_none() && !m.receipts.contains_key(&l) && !m.pending.contains(&l) && !m.invalid.contains(&l) => {
                    let st = if subscription { TowerStatus::SubscriptionError } else { TowerStatus::TemporaryUnreachable };
                    if m.status == Some("reachable") {
                        client.set_tower_status(tower_id(t), st);
                        m.status = Some(status_name(st));
                    }
                    client.add_pending_appointment(tower_id(t), &appointment(l));
                    m.pending.insert(l);
                    classes.insert("pending");
                }
                _ => did = false,
            },
            Op::Invalid { t, l } => match model.get_mut(&t) {
                Some(m) if m.proof.is_none() && !m.receipts.contains_key(&l) && !m.pending.contains(&l) && !m.invalid.contains(&l) && m.status == Some("reachable") => {
                    client.add_invalid_appointment(tower_id(t), &appointment(l));
                    m.invalid.insert(l);
                    classes.insert("invalid");
                }
                _ => did = false,
            },
            Op::PendingToAccepted { t, l } => match model.get_mut(&t) {
                Some(m) if m.slots > 0 && m.proof.is_none() && m.pending.contains(&l) => {
                    let a = appointment(l);
                    let user_sig = teos_common::cryptography::sign(&a.to_vec(), &client.user_sk);
                    let mut r = AppointmentReceipt::new(user_sig.clone(), 800 + l as u32);
                    r.sign(&user_sk(20 + t));
                    m.slots -= 1;
                    client.add_appointment_receipt(tower_id(t), locator(l), m.slots, &r);
                    client.remove_pending_appointment(tower_id(t), locator(l));
                    m.receipts.insert(l, (800 + l as u32, user_sig, r.signature().unwrap()));
                    m.pending.remove(&l);
                    if m.pending.is_empty() {
                        // the retrier finished: the tower is reachable again
                        client.set_tower_status(tower_id(t), TowerStatus::Reachable);
                        m.status = Some("reachable");
                    }
                    classes.insert("pending->accepted");
                }
                _ => did = false,
            },
            Op::PendingToInvalid { t, l } => match model.get_mut(&t) {
                Some(m) if m.proof.is_none() && m.pending.contains(&l) => {
                    client.add_invalid_appointment(tower_id(t), &appointment(l));
                    client.remove_pending_appointment(tower_id(t), locator(l));
                    m.invalid.insert(l);
                    m.pending.remove(&l);
                    if m.pending.is_empty() {
                        client.set_tower_status(tower_id(t), TowerStatus::Reachable);
                        m.status = Some("reachable");
                    }
                    classes.insert("pending->invalid");
                }
                _ => did = false,
            },
            Op::Misbehaved { t, l } => match model.get_mut(&t) {
                Some(m) if m.proof.is_none() && !m.receipts.contains_key(&l) && !m.invalid.contains(&l) && (m.pending.contains(&l) || m.status == Some("reachable")) => {
                    let a = appointment(l);
                    let user_sig = teos_common::cryptography::sign(&a.to_vec(), &client.user_sk);
                    let mut r = AppointmentReceipt::new(user_sig.clone(), 900 + l as u32);
                    r.sign(&user_sk(40 + t)); // another key
                    let proof = MisbehaviorProof::new(locator(l), r.clone(), TowerId(user_pk(40 + t)));
                    client.flag_misbehaving_tower(tower_id(t), proof);
                    m.proof = Some((l, 900 + l as u32, user_sig, r.signature().unwrap()));
                    m.status = Some("misbehaving");
                    classes.insert("misbehaviour");
                }
                _ => did = false,
            },
            Op::LateReply { t, l, accepted } => {
                if model.contains_key(&t) {
                    did = false;
                } else {
                    let a = appointment(l);
                    if accepted {
                        let user_sig = teos_common::cryptography::sign(&a.to_vec(), &client.user_sk);
                        let mut r = AppointmentReceipt::new(user_sig, 800 + l as u32);
                        r.sign(&user_sk(20 + t));
                        client.add_appointment_receipt(tower_id(t), locator(l), 50, &r);
                    } else {
                        client.add_invalid_appointment(tower_id(t), &a);
                    }
                    client.remove_pending_appointment(tower_id(t), locator(l));
                    classes.insert("late-reply-of-abandoned-tower");
                }
            }
            Op::Abandon { t } => {
                if model.contains_key(&t) {
                    if let Err(e) = client.remove_tower(tower_id(t)) {
                        rep.violations.push(v("abandon-failed", format!("step {step} {op:?}: {e:?}")));
                        break;
                    }
                    model.remove(&t);
                    classes.insert("abandon");
                    // all and only that tower's records
                    let after = raw_dump(&dir);
                    let tid = hex::encode_upper(tower_id(t).to_vec());
                    for (table, rows) in &after {
                        if let Some(r) = rows.iter().find(|r| r.contains(&tid)) {
                            rep.violations.push(v("abandon-left-records", format!("step {step} {op:?}: table {table} still has a row of the abandoned tower: {r}")));
                        }
                    }
                    for (table, rows) in &before_raw {
                        if table == "appointments" {
                            continue;
                        }
                        let expected: Vec<&String> = rows.iter().filter(|r| !r.contains(&tid)).collect();
                        let got: Vec<&String> = after[table].iter().collect();
                        if expected != got {
                            rep.violations.push(v("abandon-touched-other-towers", format!("step {step} {op:?}: table {table} lost or gained rows of other towers: before {rows:?}, after {:?}", after[table])));
                        }
                    }
                    if !rep.violations.is_empty() {
                        break;
                    }
                } else if client.remove_tower(tower_id(t)).is_ok() {
                    rep.violations.push(v("abandon-of-unknown-tower-succeeded", format!("step {step} {op:?}")));
                    break;
                } else {
                    did = false;
                }
            }
        }
        if !did {
            skipped += 1;
            continue;
        }
        applied += 1;
        // bodies shared by several towers
        for l in 0..case.locators {
            let refs = model.values().filter(|m| m.pending.contains(&l) || m.invalid.contains(&l)).count();
            if refs > 1 {
                shared_body = true;
            }
        }
        // ---- comparisons
        if let Some(viol) = compare(&client, &model, case, &dir, step, op, false) {
            rep.violations.push(viol);
            break;
        }
        // re-open (what a restart does) and compare again; the reopened client replaces the old one half of the time
        drop(_rx);
        let (tx2, rx2) = unbounded_channel();
        let reopened = rt.block_on(WTClient::new(dir.clone(), tx2));
        _rx = rx2;
        if reopened.user_id != user_id {
            rep.violations.push(v("client-key-changed", format!("step {step}: the client id changed over a restart")));
            break;
        }
        if let Some(viol) = compare(&reopened, &model, case, &dir, step, op, true) {
            rep.violations.push(viol);
            break;
        }
        // pending data must be handed to the retry manager on start
        let mut announced: HashMap<TowerId, HashSet<Locator>> = HashMap::new();
        while let Ok((tid, data)) = _rx.try_recv() {
            announced.insert(tid, data.into());
        }
        for (t, m) in &model {
            let expect_retry = m.proof.is_none() && !m.pending.is_empty();
            let got = announced.get(&tower_id(*t));
            let exp: HashSet<Locator> = m.pending.iter().map(|l| locator(*l)).collect();
            if expect_retry && got != Some(&exp) {
                rep.violations.push(v("pending-not-resumed-on-start", format!("step {step}: after a restart tower {t} has pending {:?} but the retry manager was told {:?}", m.pending, got.map(|g| g.len()))));
            }
            if !expect_retry && got.is_some() {
                rep.violations.push(v("retry-started-without-cause", format!("step {step}: after a restart tower {t} (pending {:?}, proof {}) was handed to the retry manager", m.pending, m.proof.is_some())));
            }
        }
        if !rep.violations.is_empty() {
            break;
        }
        if step % 2 == 1 {
            // continue on the reloaded client: statuses are the derived ones now
            client = reopened;
            for m in model.values_mut() {
                m.status = Some(if m.proof.is_some() { "misbehaving" } else if !m.pending.is_empty() { "temporary_unreachable" } else { "reachable" });
            }
            classes.insert("continued-after-reload");
        }
    }
    drop(client);
    let _ = std::fs::remove_dir_all(&dir);
    if shared_body {
        classes.insert("body-shared-by-several-towers");
    }
    rep.classes = classes.iter().map(|s| s.to_string()).collect();
    rep.nontrivial = applied >= 2 && (classes.contains("abandon") || classes.contains("late-reply-of-abandoned-tower") || classes.contains("pending->accepted") || classes.contains("pending->invalid") || classes.contains("misbehaviour"));
    rep.key = format!("{:?}", case.ops);
    rep.counters = vec![("ops_applied".into(), applied as u64), ("ops_skipped_precondition".into(), skipped as u64)];
    rep.sample = Some(json!({"towers": case.towers, "locators": case.locators, "ops": case.ops.iter().map(|o| format!("{o:?}")).collect::<Vec<_>>()}));
    rep
}

fn compare(client: &WTClient, model: &BTreeMap<u8, MTower>, case: &Case, dir: &PathBuf, step: usize, op: &Op, reloaded: bool) -> Option<Violation> {
    let whence = if reloaded { "after re-opening the client" } else { "in memory" };
    // memory
    if client.towers.len() != model.len() {
        return Some(v("tower-set-differs", format!("step {step} {op:?} ({whence}): client knows {} towers, expected {}", client.towers.len(), model.len())));
    }
    let db_towers = client.dbm.load_towers();
    if db_towers.len() != model.len() {
        return Some(v("tower-set-differs-on-disk", format!("step {step} {op:?}: database lists {} towers, expected {}", db_towers.len(), model.len())));
    }
    for (t, m) in model {
        let tid = tower_id(*t);
        let derived = if m.proof.is_some() { "misbehaving" } else if !m.pending.is_empty() { "temporary_unreachable" } else { "reachable" };
        for (name, src, status_exp) in [("memory", client.towers.get(&tid), if reloaded { derived } else { m.status.unwrap_or("reachable") }), ("database", db_towers.get(&tid), derived)] {
            let s = match src {
                Some(s) => s,
                None => return Some(v("tower-missing", format!("step {step} {op:?} ({whence}): tower {t} missing in {name}"))),
            };
            let j = serde_json::to_value(s).unwrap();
            let pend: BTreeSet<String> = s.pending_appointments.iter().map(|l| l.to_string()).collect();
            let inv: BTreeSet<String> = s.invalid_appointments.iter().map(|l| l.to_string()).collect();
            let pend_exp: BTreeSet<String> = m.pending.iter().map(|l| locator(*l).to_string()).collect();
            let inv_exp: BTreeSet<String> = m.invalid.iter().map(|l| locator(*l).to_string()).collect();
            if s.net_addr.net_addr() != m.net_addr || s.available_slots != m.slots || s.subscription_expiry != m.expiry || j["subscription_start"] != json!(m.start) {
                return Some(v(&format!("summary-differs:{name}"), format!("step {step} {op:?} ({whence}): tower {t} in {name}: addr {} slots {} start {} expiry {}; expected {} {} {} {}", s.net_addr.net_addr(), s.available_slots, j["subscription_start"], s.subscription_expiry, m.net_addr, m.slots, m.start, m.expiry)));
            }
            if pend != pend_exp || inv != inv_exp {
                return Some(v(&format!("appointment-sets-differ:{name}"), format!("step {step} {op:?} ({whence}): tower {t} in {name}: pending {pend:?} invalid {inv:?}; expected {pend_exp:?} {inv_exp:?}")));
            }
            if status_name(s.status) != status_exp {
                return Some(v(&format!("status-differs:{name}"), format!("step {step} {op:?} ({whence}): tower {t} in {name} is {}, expected {status_exp}", status_name(s.status))));
            }
        }
        // full record (gettowerinfo)
        let rec = match client.load_tower_info(tid) {
            Some(r) => r,
            None => return Some(v("tower-record-missing", format!("step {step} {op:?} ({whence}): no tower record for tower {t}"))),
        };
        let mut exp_rcpts: BTreeMap<String, String> = m.receipts.iter().map(|(l, r)| (locator(*l).to_string(), r.2.clone())).collect();
        if let Some((l, _, _, ts)) = &m.proof {
            exp_rcpts.insert(locator(*l).to_string(), ts.clone());
        }
        let got_rcpts: BTreeMap<String, String> = rec.appointments.iter().map(|(l, s)| (l.to_string(), s.clone())).collect();
        if got_rcpts != exp_rcpts {
            return Some(v("receipts-differ", format!("step {step} {op:?} ({whence}): tower {t}: receipts {:?}, expected {:?}", got_rcpts.keys().collect::<Vec<_>>(), exp_rcpts.keys().collect::<Vec<_>>())));
        }
        let mut got_p: Vec<Appointment> = rec.pending_appointments.clone();
        got_p.sort_by_key(|a| a.locator.to_string());
        let mut exp_p: Vec<Appointment> = m.pending.iter().map(|l| appointment(*l)).collect();
        exp_p.sort_by_key(|a| a.locator.to_string());
        let mut got_i: Vec<Appointment> = rec.invalid_appointments.clone();
        got_i.sort_by_key(|a| a.locator.to_string());
        let mut exp_i: Vec<Appointment> = m.invalid.iter().map(|l| appointment(*l)).collect();
        exp_i.sort_by_key(|a| a.locator.to_string());
        if got_p != exp_p || got_i != exp_i {
            return Some(v("appointment-bodies-differ", format!("step {step} {op:?} ({whence}): tower {t}: full pending/invalid appointments are not the ones stored ({} / {} bodies, expected {} / {})", got_p.len(), got_i.len(), exp_p.len(), exp_i.len())));
        }
        match (&rec.misbehaving_proof, &m.proof) {
            (None, None) => {}
            (Some(p), Some((l, sb, us, ts))) => {
                if p.locator != locator(*l) || p.recovered_id != TowerId(user_pk(40 + t)) || p.appointment_receipt != AppointmentReceipt::with_signature(us.clone(), *sb, ts.clone()) {
                    return Some(v("proof-differs", format!("step {step} {op:?} ({whence}): tower {t}: stored misbehaviour proof is not the one recorded")));
                }
            }
            (a, b) => return Some(v("proof-presence-differs", format!("step {step} {op:?} ({whence}): tower {t}: proof stored {}, expected {}", a.is_some(), b.is_some()))),
        }
        if rec.available_slots != m.slots || rec.subscription_expiry != m.expiry || rec.subscription_start != m.start || rec.net_addr != m.net_addr {
            return Some(v("record-differs", format!("step {step} {op:?} ({whence}): tower {t}: record says slots {} start {} expiry {}", rec.available_slots, rec.subscription_start, rec.subscription_expiry)));
        }
        for (l, (sb, us, ts)) in &m.receipts {
            if client.get_appointment_receipt(tid, locator(*l)) != Some(AppointmentReceipt::with_signature(us.clone(), *sb, ts.clone())) {
                return Some(v("appointment-receipt-differs", format!("step {step} {op:?} ({whence}): tower {t} locator {l}: stored receipt is not the one recorded")));
            }
        }
        match client.get_registration_receipt(tid) {
            Some(r) if r.available_slots() == m.slots + m.receipts.len() as u32 || r.subscription_expiry() == m.expiry => {}
            other => return Some(v("registration-receipt-differs", format!("step {step} {op:?} ({whence}): tower {t}: latest registration receipt {other:?}, expected expiry {}", m.expiry))),
        }
    }
    // raw rows: every link has its body
    let raw = raw_dump(dir);
    let bodies: BTreeSet<String> = raw["appointments"].iter().map(|r| r.split('|').next().unwrap().to_string()).collect();
    for table in ["pending_appointments", "invalid_appointments"] {
        for r in &raw[table] {
            let l = r.split('|').next().unwrap().to_string();
            if !bodies.contains(&l) {
                return Some(v("link-without-body", format!("step {step} {op:?}: {table} row {r} has no appointment body")));
            }
        }
    }
    for l in 0..case.locators {
        let referenced = model.values().any(|m| m.pending.contains(&l) || m.invalid.contains(&l));
        let key = format!("Text(\"{}\")", hex::encode_upper(locator(l).to_vec()));
        if referenced && !bodies.contains(&key) {
            return Some(v("shared-body-deleted-too-early", format!("step {step} {op:?}: locator {l} is still pending/invalid for a tower but its body is gone")));
        }
    }
    None
}

pub struct C18;
impl Campaign for C18 {
    type Case = Case;
    fn name(&self) -> &str {
        "C18"
    }
    fn strategy(&self) -> BoxedStrategy<Case> {
        (2u8..=3, 2u8..=3, prop_oneof![Just(1u32), Just(2u32), Just(100u32)])
            .prop_flat_map(|(towers, locators, grant)| {
                let op = prop_oneof![
                    3 => (0..towers).prop_map(|t| Op::Register { t }),
                    1 => (0..towers, 0u8..3).prop_map(|(t, which)| Op::StaleRenewal { t, which }),
                    3 => (0..towers, 0..locators).prop_map(|(t, l)| Op::Accepted { t, l }),
                    4 => (0..towers, 0..locators, any::<bool>()).prop_map(|(t, l, subscription)| Op::Pending { t, l, subscription }),
                    2 => (0..towers, 0..locators).prop_map(|(t, l)| Op::Invalid { t, l }),
                    3 => (0..towers, 0..locators).prop_map(|(t, l)| Op::PendingToAccepted { t, l }),
                    2 => (0..towers, 0..locators).prop_map(|(t, l)| Op::PendingToInvalid { t, l }),
                    1 => (0..towers, 0..locators).prop_map(|(t, l)| Op::Misbehaved { t, l }),
                    2 => (0..towers).prop_map(|t| Op::Abandon { t }),
                    1 => (0..towers, 0..locators, any::<bool>()).prop_map(|(t, l, accepted)| Op::LateReply { t, l, accepted }),
                ];
                proptest::collection::vec(op, 1..25).prop_map(move |mut ops| {
                    ops.insert(0, Op::Register { t: 0 });
                    ops.insert(1, Op::Register { t: 1 });
                    Case { towers, locators, ops, grant }
                })
            })
            .boxed()
    }
    fn run_case(&self, case: &Case, w: usize) -> CaseReport {
        run_one(case, &format!("c18-{w}"))
    }
}

/// exhaustive small scope: 2 towers x 2 locators, every sequence of `len` ops after the two registrations
fn small_scope_ops() -> Vec<Op> {
    let mut ops = vec![];
    for t in 0..2u8 {
        ops.push(Op::Register { t });
        ops.push(Op::Abandon { t });
        for l in 0..2u8 {
            ops.push(Op::Accepted { t, l });
            ops.push(Op::Pending { t, l, subscription: false });
            ops.push(Op::Invalid { t, l });
            ops.push(Op::PendingToAccepted { t, l });
            ops.push(Op::PendingToInvalid { t, l });
            ops.push(Op::Misbehaved { t, l });
        }
    }
    ops
}

pub fn run(ctx: &Ctx) -> i32 {
    let started = Instant::now();
    if let Some(p) = &ctx.replay {
        return runner::replay(&C18, p);
    }
    let alphabet = small_scope_ops();
    let len = if ctx.thorough() { 4 } else { 3 };
    // thorough tier (len 4): the two towers are interchangeable at the start, so the first operation is taken from tower 0's
    // half of the alphabet only (the alphabet lists tower 0's operations first)
    let first_base = if ctx.thorough() { alphabet.len() as u64 / 2 } else { alphabet.len() as u64 };
    let plain = first_base * (alphabet.len() as u64).pow(len - 1);
    // second family: any two operations, then abandon t, then the late reply (accepted / rejected) of a request that was
    // in flight for (t, l) - the order in which a retrier's completion and abandontower can really interleave
    let late = (alphabet.len() as u64).pow(if ctx.thorough() { len - 2 } else { len - 1 }) * 8;
    let total = plain + late;
    let mut stats = runner::run_indexed(ctx, total, &|mut i| {
        let mut ops = vec![Op::Register { t: 0 }, Op::Register { t: 1 }];
        if i < plain {
            ops.push(alphabet[(i % first_base) as usize]);
            i /= first_base;
            for _ in 1..len {
                ops.push(alphabet[(i % alphabet.len() as u64) as usize]);
                i /= alphabet.len() as u64;
            }
        } else {
            i -= plain;
            let (t, l, accepted) = ((i & 1) as u8, ((i >> 1) & 1) as u8, (i >> 2) & 1 == 1);
            i >>= 3;
            for _ in 0..(if ctx.thorough() { len - 2 } else { len - 1 }) {
                ops.push(alphabet[(i % alphabet.len() as u64) as usize]);
                i /= alphabet.len() as u64;
            }
            ops.push(Op::Abandon { t });
            ops.push(Op::LateReply { t, l, accepted });
        }
        let case = Case { towers: 2, locators: 2, ops, grant: 1 };
        let rep = run_one(&case, &format!("c18x-{:?}", std::thread::current().id()).replace(['(', ')'], ""));
        (serde_json::to_value(&case).unwrap(), rep)
    });
    let exhaustive_n = stats.evaluations;
    if stats.failures.is_empty() {
        stats.merge(runner::run_campaign(&C18, ctx, if ctx.thorough() { 3000 } else { 200 }));
    }
    let mut ev = Evidence::default();
    ev.level = "exploration".into();
    ev.rule = format!(
        "exhaustive small scope: every sequence of {len} operations out of {} (thorough tier: the first one from tower 0's half, the towers being interchangeable at the start) plus every sequence of 2 operations followed by abandon t and the late reply (accepted / rejected) of a request in flight for (t, l) (register / abandon / accepted / pending / invalid / pending->accepted / pending->invalid / misbehaved / late reply of an abandoned tower over 2 towers x 2 locators) after two registrations ({exhaustive_n} sequences; operations whose caller-side precondition does not hold are skipped and counted); random: sequences of up to 24 operations over 2-3 towers and 2-3 locators incl. non-extending renewals and subscription errors. After EVERY operation: WTClient.towers == DBM::load_towers == load_tower_record == reference model; a freshly re-opened client reproduces it (pending => temporary unreachable + handed to the retry manager, proof => misbehaving); after abandon no row of any table mentions the tower and no other tower's row changed; every pending/invalid link has its body. Non-trivial = at least two operations applied including an abandon, a pending transition or a misbehaviour; distinct = distinct operation lists.",
        alphabet.len()
    );
    ev.extra.insert("exhaustive_small_scope_sequences".into(), json!(exhaustive_n));
    ev.assumptions = vec![
        "mutators are called in the orders and under the preconditions of their real callers (no duplicate record for one (tower, locator): duplicates are C05/C14's subject)".into(),
        "appointment bodies nobody references any more are not required to be collected".into(),
    ];
    runner::conclude(ctx, "C18", stats, ev, started)
}

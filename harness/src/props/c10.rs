//! C10 — concurrent requests and block events behave as if executed one at a time;
//! C11(a) — no interleaving deadlocks / poisons / aborts the tower.
//!
//! The real tower runs on real threads whose schedule is owned by `sched` (lock-acquisition granularity).
//! Per scenario (prepared state + 2-3 concurrent operations) every schedule with at most K preemptions is
//! enumerated depth-first (exhaustive mode), or schedules are drawn by proptest (random mode, triples).
//! Oracle C10: outcome (replies, store, node submissions) of a schedule ∈ outcomes of the sequential orders.
//! Oracle C11: no all-blocked state, no panic in any thread, and the tower still answers afterwards.

use std::collections::{BTreeMap, BTreeSet};
use std::sync::Arc;
use std::time::Instant;

use proptest::prelude::*;
use serde::{Deserialize, Serialize};
use serde_json::json;

use crate::evidence::Evidence;
use crate::ops::*;
use crate::plain::{api_call, setup_op, snapshot_digest, submissions};
use crate::runner::{self, CaseReport, Ctx, Stats, Violation};
use crate::sched;
use crate::simnode::{txs, Node};
use crate::towerbox::{Tower, TowerCfg};
use crate::world::{scratch_dir, SALT, START_HEIGHT};

#[derive(Debug, Clone, Serialize, Deserialize)]
pub struct Scenario {
    pub name: String,
    pub cfg: TowerCfg,
    pub setup: Vec<Op>,
    /// concurrent operations; `Op::Poll` is the chain-processing thread
    pub threads: Vec<Op>,
}

#[derive(Debug, Clone, Serialize, Deserialize)]
pub struct Case {
    pub scenario: Scenario,
    pub schedule: Vec<u8>,
}

#[derive(Debug, Clone, Default)]
pub struct Outcome {
    pub replies: Vec<String>,
    pub users: Vec<String>,
    pub appts: Vec<String>,
    pub trackers: Vec<String>,
    pub node: Vec<String>,
}

impl PartialEq for Outcome {
    fn eq(&self, o: &Self) -> bool {
        self.users == o.users && self.appts == o.appts && self.trackers == o.trackers && self.node == o.node
    }
}
impl Eq for Outcome {}

pub struct RunOut {
    /// receipts whose start_block differs from what was stored for that very request
    pub receipt_mismatch: Option<String>,
    pub outcome: Option<Outcome>,
    pub res: sched::RunResult,
    pub probe_failed: Option<String>,
    pub setup_failed: Option<String>,
}

fn opname(o: &Op) -> String {
    match o {
        Op::Poll => "block-processing".into(),
        Op::Register { u } => format!("register(u{u})"),
        Op::Add { u, chan, blob, .. } => format!("add(u{u},c{chan},{})", match blob { BlobKind::Valid { len, .. } => format!("valid{len}"), b => format!("{b:?}").to_lowercase() }),
        Op::Get { u, chan, .. } => format!("get(u{u},c{chan})"),
        Op::SubInfo { u, .. } => format!("subinfo(u{u})"),
        o => format!("{o:?}"),
    }
}

/// Executes the scenario under the schedule on worker slot `slot`.
pub fn execute(sc: &Scenario, schedule: &[u8], slot: usize) -> RunOut {
    execute_with(sc, schedule, slot, None)
}

pub fn execute_with(sc: &Scenario, schedule: &[u8], slot: usize, serial: Option<Vec<usize>>) -> RunOut {
    let node = Node::new(START_HEIGHT, false);
    {
        let mut st = node.lock();
        for c in 0..8u32 {
            st.funded.insert(txs::funding(SALT, c));
        }
        for n in 0..8u32 {
            st.funded.insert(txs::noise_outpoint(SALT, n));
        }
    }
    let dir = scratch_dir(&format!("c10-{slot}"));
    let _ = std::fs::remove_dir_all(&dir);
    let mut tower = match Tower::boot(node.clone(), &dir, sc.cfg) {
        Ok(t) => t,
        Err(e) => {
            return RunOut { receipt_mismatch: None, outcome: None, res: Default::default(), probe_failed: None, setup_failed: Some(format!("boot: {e:?}")) };
        }
    };
    for op in &sc.setup {
        if let Err(e) = setup_op(&node, &mut tower, op) {
            let _ = std::fs::remove_dir_all(&dir);
            return RunOut { receipt_mismatch: None, outcome: None, res: Default::default(), probe_failed: None, setup_failed: Some(format!("setup {op:?}: {e}")) };
        }
    }
    let log_from = node.log_len();
    let replies: Arc<std::sync::Mutex<Vec<Option<String>>>> = Arc::new(std::sync::Mutex::new(vec![None; sc.threads.len()]));
    let api = tower.api.clone();
    let res = {
        let mut bodies: Vec<(String, Box<dyn FnOnce() + Send + '_>)> = vec![];
        let tower_cell = std::sync::Mutex::new(Some(&mut tower));
        let tower_cell = &tower_cell;
        for (i, op) in sc.threads.iter().enumerate() {
            let replies = replies.clone();
            let api = api.clone();
            let name = format!("T{i}:{}", opname(op));
            match op {
                Op::Poll => bodies.push((
                    name,
                    Box::new(move || {
                        let t = tower_cell.lock().unwrap().take().expect("one poll thread only");
                        let r = t.poll();
                        match r {
                            Ok(()) => replies.lock().unwrap()[i] = Some("processed".into()),
                            Err(p) => {
                                if p == crate::faults::CRASH {
                                    std::panic::resume_unwind(Box::new(crate::panics::HarnessUnwind("sched-abort")));
                                }
                                // re-raise so that the scheduler records it as this thread's panic
                                panic!("{p}");
                            }
                        }
                    }),
                )),
                api_op => {
                    let api_op = api_op.clone();
                    bodies.push((
                        name,
                        Box::new(move || {
                            let r = api_call(&api, &api_op);
                            replies.lock().unwrap()[i] = Some(r);
                        }),
                    ))
                }
            }
        }
        sched::run_with(slot, bodies, schedule, serial)
    };
    let mut probe_failed = None;
    let mut outcome = None;
    let mut receipt_mismatch = None;
    if res.deadlock.is_none() && !res.hung {
        // liveness probe: the tower must still answer a request and process a block
        let probe = std::panic::catch_unwind(std::panic::AssertUnwindSafe(|| {
            let info = tower.get_tower_info()?;
            let _ = info;
            let r = tower.register(crate::world::user_pk(3).serialize().to_vec())?;
            if r.is_err() {
                return Err("probe registration refused".to_string());
            }
            crate::plain::mine_one(&node, None, Take::None, &[]);
            tower.poll()?;
            Ok::<(), String>(())
        }));
        match probe {
            Ok(Ok(())) => {}
            Ok(Err(e)) => probe_failed = Some(e),
            Err(p) => probe_failed = Some(crate::towerbox::panic_message(p)),
        }
        if res.panics.is_empty() && probe_failed.is_none() {
            let snap = tower.snapshot();
            // C08 under concurrency: the start block a receipt commits to is the one stored for that request
            for (i, op) in sc.threads.iter().enumerate() {
                if let Op::Add { u, chan, dvar, blob, delay, sig } = op {
                    let reply = replies.lock().unwrap()[i].clone().unwrap_or_default();
                    if let Some(start) = reply.strip_prefix("accepted(start=").and_then(|r| r.split(',').next()).and_then(|x| x.parse::<u32>().ok()) {
                        let dispute = txs::dispute(SALT, *chan as u32, *dvar as u32);
                        let locator = crate::model::Locator::new(dispute.compute_txid());
                        let appt = teos_common::appointment::Appointment::new(locator.real(), crate::world::blob_of(*blob, &dispute), *delay);
                        let sigs = crate::world::make_sig(*sig, crate::world::ReqKind::Add, &appt.to_vec(), *u, &locator);
                        let uuid = crate::model::uuid_of(&locator, &crate::world::user_pk(*u));
                        if let Some(row) = snap.appointments.get(&uuid) {
                            if row.user_signature == sigs && row.start_block != start {
                                receipt_mismatch = Some(format!("the receipt of {} commits to start_block {start} but the tower stored {} for that request", opname(op), row.start_block));
                            }
                        }
                    }
                }
            }
            let (users, appts, trackers) = snapshot_digest(&snap);
            outcome = Some(Outcome {
                // replies are momentary readings (numbers, heights, which error came first); what counts is what they led to
                replies: replies.lock().unwrap().iter().map(|r| r.clone().unwrap_or("none".into())).collect(),
                users,
                appts,
                trackers,
                node: submissions(&node, log_from),
            });
        }
    }
    // a deadlocked / aborted tower may hold poisoned locks: drop it on a best-effort basis
    let _ = std::panic::catch_unwind(std::panic::AssertUnwindSafe(|| drop(tower)));
    let _ = std::fs::remove_dir_all(&dir);
    RunOut { receipt_mismatch, outcome, res, probe_failed, setup_failed: None }
}

fn diff_components(a: &Outcome, b: &Outcome) -> Vec<&'static str> {
    let mut d = vec![];
    if a.users != b.users {
        d.push("slots/subscriptions");
    }
    if a.appts != b.appts {
        d.push("appointments");
    }
    if a.trackers != b.trackers {
        d.push("trackers");
    }
    if a.node != b.node {
        d.push("node-submissions");
    }
    d
}

/// Judges one run against the sequential outcomes. `serial` = outcomes of all sequential orders.
pub fn judge(sc: &Scenario, out: &RunOut, serial: &[Outcome], want_c10: bool) -> Vec<Violation> {
    let mut v = vec![];
    let pair = {
        let mut n: Vec<String> = sc.threads.iter().map(opname).collect();
        n.sort();
        n.join("||")
    };
    if let Some(d) = &out.res.deadlock {
        // root cause key: the set of lock creation sites in the cycle
        let mut sites: Vec<String> = d.split("; ").map(|s| s.split(" wants ").nth(1).unwrap_or(s).split(" held by ").next().unwrap_or("").to_string()).collect();
        sites.sort();
        sites.dedup();
        v.push(Violation {
            property: "C11".into(),
            signature: format!("deadlock:{}", sites.join("<->")),
            message: format!("scenario `{}` ({pair}): every thread is blocked — {d}", sc.name),
        });
        return v;
    }
    for (t, p) in &out.res.panics {
        v.push(Violation {
            property: "C11".into(),
            signature: crate::panics::signature(p),
            message: format!("scenario `{}` ({pair}): thread {t} aborted: {p}", sc.name),
        });
    }
    if let (Some(p), true) = (&out.probe_failed, v.is_empty()) {
        v.push(Violation {
            property: "C11".into(),
            signature: format!("not-live-after:{}", crate::panics::signature(p)),
            message: format!("scenario `{}` ({pair}): after the concurrent operations the tower no longer answers: {p}", sc.name),
        });
    }
    if !v.is_empty() || !want_c10 {
        return v;
    }
    if let Some(m) = &out.receipt_mismatch {
        v.push(Violation {
            property: "C08".into(),
            signature: format!("receipt-start-block-not-the-stored-one:{pair}"),
            message: format!("scenario `{}`: {m}", sc.name),
        });
        return v;
    }
    if let Some(o) = &out.outcome {
        if !serial.iter().any(|s| s == o) {
            // closest sequential outcome
            let best = serial.iter().min_by_key(|s| diff_components(o, s).len()).unwrap();
            let comps = diff_components(o, best);
            v.push(Violation {
                property: "C10".into(),
                signature: format!("not-serialisable:{pair}:{}", comps.join("+")),
                message: format!(
                    "scenario `{}`: this interleaving ends in a state no sequential order of the same operations produces (differs in {}). got replies {:?} users {:?} appts {:?} trackers {:?} node {:?}; closest sequential: replies {:?} users {:?} appts {:?} trackers {:?} node {:?}",
                    sc.name,
                    comps.join(", "),
                    o.replies,
                    o.users,
                    o.appts,
                    o.trackers,
                    o.node,
                    best.replies,
                    best.users,
                    best.appts,
                    best.trackers,
                    best.node
                ),
            });
        }
    }
    v
}

/// Outcomes of the sequential orders (all permutations of the threads, no preemption).
pub fn serial_outcomes(sc: &Scenario, slot: usize) -> Result<Vec<Outcome>, Vec<Violation>> {
    let n = sc.threads.len();
    let mut outs = vec![];
    let orders: Vec<Vec<usize>> = if n == 2 {
        vec![vec![0, 1], vec![1, 0]]
    } else {
        vec![vec![0, 1, 2], vec![0, 2, 1], vec![1, 0, 2], vec![1, 2, 0], vec![2, 0, 1], vec![2, 1, 0]]
    };
    for s in orders {
        let out = execute_with(sc, &[], slot, Some(s));
        if let Some(e) = &out.setup_failed {
            return Err(vec![Violation { property: "C10".into(), signature: "harness-setup-failed".into(), message: format!("scenario `{}`: {e}", sc.name) }]);
        }
        let v = judge(sc, &out, &[], false);
        if !v.is_empty() {
            return Err(v);
        }
        if let Some(o) = out.outcome {
            if !outs.contains(&o) {
                outs.push(o);
            }
        }
    }
    Ok(outs)
}

fn add(u: u8, chan: u8, len: u8) -> Op {
    Op::Add { u, chan, dvar: 0, blob: BlobKind::Valid { len, var: 0 }, delay: 42, sig: SigKind::Good }
}
fn mine(extra: Vec<TxRef>) -> Op {
    Op::Mine { take: Take::All, extra }
}

/// The catalogue: prepared situations x concurrent operation pairs / triples.
pub fn catalogue() -> Vec<Scenario> {
    let cfg = TowerCfg { slots: 10, duration: 1000, grace: 6 };
    let reg0 = Op::Register { u: 0 };
    let reg1 = Op::Register { u: 1 };
    let get0 = Op::Get { u: 0, chan: 0, dvar: 0, sig: SigKind::Good };
    let sub0 = Op::SubInfo { u: 0, sig: SigKind::Good };
    let d0 = TxRef::Dispute(0, 0);
    let mut out = vec![];
    // situations in which the chain-processing thread has work to do
    let situations: Vec<(&str, TowerCfg, Vec<Op>)> = vec![
        ("block-with-dispute", cfg, vec![reg0.clone(), add(0, 0, 0), mine(vec![d0])]),
        (
            "block-completing-a-tracker",
            cfg,
            vec![reg0.clone(), add(0, 0, 0), mine(vec![d0]), Op::Poll, mine(vec![]), Op::Poll, Op::MineMany { n: 99, take: Take::All }, Op::Poll, mine(vec![])],
        ),
        (
            "block-purging-the-user",
            TowerCfg { slots: 10, duration: 3, grace: 0 },
            vec![reg0.clone(), add(0, 0, 0), Op::MineMany { n: 2, take: Take::All }, Op::Poll, mine(vec![])],
        ),
        (
            "block-with-stale-tracker",
            cfg,
            vec![reg0.clone(), add(0, 0, 0), mine(vec![d0]), Op::Poll, Op::MineMany { n: 5, take: Take::NoPenalties }, Op::Poll, Op::Mine { take: Take::NoPenalties, extra: vec![] }],
        ),
        (
            "reorg-of-confirming-block",
            cfg,
            vec![reg0.clone(), add(0, 0, 0), mine(vec![d0]), Op::Poll, mine(vec![]), Op::Poll, Op::Reorg { depth: 1, extra: 1, first: vec![], later_at: 0, later: vec![], evict: false }],
        ),
        // a stored, untriggered appointment accepted at the very height that is then reorged away: a request served between
        // the disconnection and the connection of the replacement sees the tower one block lower than when it was stored
        (
            "reorg-under-a-stored-appointment",
            cfg,
            vec![reg0.clone(), add(0, 1, 3), Op::Reorg { depth: 1, extra: 1, first: vec![], later_at: 0, later: vec![], evict: false }],
        ),
        ("plain-block", cfg, vec![reg0.clone(), add(0, 0, 0), mine(vec![])]),
    ];
    let api_ops: Vec<Op> = vec![reg0.clone(), reg1.clone(), add(0, 1, 0), add(0, 0, 3), add(0, 0, 0), get0.clone(), sub0.clone()];
    for (name, c, setup) in &situations {
        for a in &api_ops {
            out.push(Scenario { name: format!("{name} || {}", opname(a)), cfg: *c, setup: setup.clone(), threads: vec![Op::Poll, a.clone()] });
        }
    }
    // dispute already in the six-block window: acceptance-time trigger against block processing and against itself
    let in_cache = vec![reg0.clone(), mine(vec![d0]), Op::Poll, mine(vec![])];
    out.push(Scenario { name: "dispute-in-window: add || plain block".into(), cfg, setup: in_cache.clone(), threads: vec![Op::Poll, add(0, 0, 0)] });
    out.push(Scenario { name: "dispute-in-window: add || same add".into(), cfg, setup: in_cache[..3].to_vec(), threads: vec![add(0, 0, 0), add(0, 0, 0)] });
    // ... and the block being processed carries the penalty itself (somebody else broadcast it): the Responder learns of the
    // breach while its own index and confirmation check are running
    let p0 = TxRef::Penalty(0, 0, 0, 0);
    out.push(Scenario { name: "dispute-in-window: add || block with its penalty".into(), cfg, setup: vec![reg0.clone(), mine(vec![d0]), Op::Poll, mine(vec![p0])], threads: vec![Op::Poll, add(0, 0, 0)] });
    out.push(Scenario { name: "dispute-in-window: add || penalty block, then another".into(), cfg, setup: vec![reg0.clone(), mine(vec![d0]), Op::Poll, mine(vec![p0]), mine(vec![])], threads: vec![Op::Poll, add(0, 0, 0)] });
    // dispute block being processed while the appointment arrives (the C10 headline case)
    out.push(Scenario { name: "appointment arrives while its dispute block is processed".into(), cfg, setup: vec![reg0.clone(), mine(vec![d0])], threads: vec![Op::Poll, add(0, 0, 0)] });
    // pure API pairs
    let idle = vec![reg0.clone()];
    let pairs: Vec<(Op, Op)> = vec![
        (add(0, 0, 0), add(0, 0, 0)),
        (add(0, 0, 0), add(0, 0, 3)),
        (add(0, 0, 0), add(0, 1, 0)),
        (reg0.clone(), add(0, 0, 0)),
        (reg0.clone(), reg0.clone()),
        (reg1.clone(), reg1.clone()),
        (reg1.clone(), add(0, 0, 0)),
        (add(0, 0, 0), get0.clone()),
        (add(0, 0, 0), sub0.clone()),
    ];
    for (a, b) in pairs {
        out.push(Scenario { name: format!("idle: {} || {}", opname(&a), opname(&b)), cfg, setup: idle.clone(), threads: vec![a, b] });
    }
    // updates of a stored appointment
    let stored = vec![reg0.clone(), add(0, 0, 3)];
    out.push(Scenario { name: "stored: shrink || grow".into(), cfg, setup: stored.clone(), threads: vec![add(0, 0, 0), add(0, 0, 6)] });
    out.push(Scenario { name: "stored: shrink || renew".into(), cfg, setup: stored.clone(), threads: vec![add(0, 0, 0), reg0.clone()] });
    // tight budget: two appointments competing for the last slot
    let tight = TowerCfg { slots: 1, duration: 1000, grace: 6 };
    out.push(Scenario { name: "last slot: add c0 || add c1".into(), cfg: tight, setup: idle.clone(), threads: vec![add(0, 0, 0), add(0, 1, 0)] });
    // triples
    out.push(Scenario { name: "triple: dispute block || add c1 || renew".into(), cfg, setup: situations[0].2.clone(), threads: vec![Op::Poll, add(0, 1, 0), reg0.clone()] });
    out.push(Scenario { name: "triple: completion || add c1 || update c0".into(), cfg, setup: situations[1].2.clone(), threads: vec![Op::Poll, add(0, 1, 0), add(0, 0, 3)] });
    out.push(Scenario { name: "triple: add || same add || get".into(), cfg, setup: idle.clone(), threads: vec![add(0, 0, 0), add(0, 0, 0), get0.clone()] });
    out.push(Scenario { name: "triple: purge || add c1 || subinfo".into(), cfg: situations[2].1, setup: situations[2].2.clone(), threads: vec![Op::Poll, add(0, 1, 0), sub0.clone()] });
    out
}

pub struct Explored {
    pub stats: Stats,
    pub schedules: u64,
    pub scenarios: u64,
    pub order_edges: BTreeMap<(String, String), BTreeSet<String>>,
    pub hung: u64,
}

/// Explores the catalogue. `want_c10`: judge serialisability too (else only C11 verdicts).
pub fn explore(ctx: &Ctx, want_c10: bool) -> Explored {
    let findings = crate::known::load();
    let cat = catalogue();
    let max_pre_pairs: usize = if ctx.thorough() { 3 } else { 2 };
    let budget_per_scenario: u64 = if ctx.thorough() { 60_000 } else { 4_000 };
    let next = std::sync::atomic::AtomicUsize::new(0);
    let total = std::sync::Mutex::new((Stats::default(), 0u64, 0u64, BTreeMap::<(String, String), BTreeSet<String>>::new(), 0u64));
    std::thread::scope(|scope| {
        for w in 0..ctx.workers.min(sched::SLOTS) {
            let cat = &cat;
            let next = &next;
            let total = &total;
            let findings = &findings;
            let seed = ctx.seed;
            scope.spawn(move || {
                let mut st = Stats::default();
                let mut n_sched = 0u64;
                let mut n_scen = 0u64;
                let mut hung = 0u64;
                let mut edges: BTreeMap<(String, String), BTreeSet<String>> = BTreeMap::new();
                loop {
                    let i = next.fetch_add(1, std::sync::atomic::Ordering::Relaxed);
                    if i >= cat.len() {
                        break;
                    }
                    let sc = &cat[i];
                    n_scen += 1;
                    let serial = match serial_outcomes(sc, w) {
                        Ok(s) => s,
                        Err(vs) => {
                            let rep = CaseReport { violations: vs, ..Default::default() };
                            let (unknown, kn) = runner::triage(findings, &rep);
                            for k in kn {
                                *st.known_hits.entry((k.property, k.signature)).or_insert(0) += 1;
                            }
                            if let Some(v) = unknown.first() {
                                st.failures.push((v.clone(), json!(Case { scenario: sc.clone(), schedule: vec![] })));
                            }
                            continue;
                        }
                    };
                    let max_pre = if sc.threads.len() == 2 { max_pre_pairs } else { max_pre_pairs.saturating_sub(1).max(1) };
                    let mut schedule: Vec<u8> = vec![];
                    let mut runs = 0u64;
                    let mut rng_state = seed.wrapping_mul(6364136223846793005).wrapping_add(i as u64 * 1442695040888963407 + 1);
                    let mut known_here: BTreeSet<String> = BTreeSet::new();
                    loop {
                        let out = execute(sc, &schedule, w);
                        runs += 1;
                        n_sched += 1;
                        if out.res.hung {
                            hung += 1;
                        }
                        for (k, v) in &out.res.order_edges {
                            edges.entry(k.clone()).or_default().extend(v.iter().cloned());
                        }
                        let vs = judge(sc, &out, &serial, want_c10);
                        let pre = sched::preemptions(&out.res.trace);
                        let rep = CaseReport {
                            violations: vs,
                            classes: vec![format!("preemptions={pre}"), format!("threads={}", sc.threads.len())],
                            nontrivial: out.res.preempted_inside_region > 0,
                            key: format!("{}|{:?}", i, out.res.trace.iter().map(|d| d.chosen).collect::<Vec<_>>()),
                            sample: Some(json!({"scenario": sc.name, "schedule": out.res.trace.iter().map(|d| d.chosen).collect::<Vec<_>>(), "preemptions": pre, "lock_events": out.res.events})),
                            counters: vec![("lock_events".into(), out.res.events)],
                        };
                        let (unknown, kn) = runner::triage(findings, &rep);
                        st.absorb(&rep);
                        let mut stop_scenario = false;
                        for k in kn {
                            *st.known_hits.entry((k.property.clone(), k.signature.clone())).or_insert(0) += 1;
                            // a recorded finding: its schedules keep failing the same way; explore on, but do not count twice
                            known_here.insert(k.signature);
                        }
                        if let Some(v) = unknown.first() {
                            st.failures.push((v.clone(), json!(Case { scenario: sc.clone(), schedule: out.res.trace.iter().map(|d| d.chosen as u8).collect() })));
                            stop_scenario = true;
                        }
                        if stop_scenario || runs >= budget_per_scenario {
                            break;
                        }
                        // next schedule: depth-first with the preemption bound; beyond it, for triples, random tails
                        match sched::next_schedule(&out.res.trace, max_pre) {
                            Some(s) => schedule = s,
                            None => {
                                if sc.threads.len() > 2 && runs < budget_per_scenario / 4 {
                                    // random schedules with more preemptions
                                    rng_state = rng_state.wrapping_mul(6364136223846793005).wrapping_add(1442695040888963407);
                                    let len = out.res.trace.len().max(8);
                                    schedule = (0..len)
                                        .map(|j| {
                                            rng_state = rng_state.wrapping_mul(6364136223846793005).wrapping_add(j as u64 | 1);
                                            if (rng_state >> 33) % 6 == 0 { ((rng_state >> 40) % 3) as u8 } else { 0 }
                                        })
                                        .collect();
                                } else {
                                    break;
                                }
                            }
                        }
                    }
                }
                let mut t = total.lock().unwrap();
                t.0.merge(st);
                t.1 += n_sched;
                t.2 += n_scen;
                for (k, v) in edges {
                    t.3.entry(k).or_default().extend(v);
                }
                t.4 += hung;
            });
        }
    });
    let t = total.into_inner().unwrap();
    Explored { stats: t.0, schedules: t.1, scenarios: t.2, order_edges: t.3, hung: t.4 }
}

pub fn replay(path: &str) -> i32 {
    crate::panics::VERBOSE.store(true, std::sync::atomic::Ordering::SeqCst);
    let body: serde_json::Value = serde_json::from_str(&std::fs::read_to_string(path).expect("cannot read replay file")).expect("bad replay json");
    let case: Case = serde_json::from_value(body["case"].clone()).expect("replay case does not match this check");
    let serial = match serial_outcomes(&case.scenario, 0) {
        Ok(s) => s,
        Err(vs) => {
            for v in vs {
                println!("VIOLATION property={} replay={path}\n  signature: {}\n  {}", v.property, v.signature, v.message);
            }
            return 1;
        }
    };
    let out = execute(&case.scenario, &case.schedule, 0);
    let vs = judge(&case.scenario, &out, &serial, true);
    println!("scenario: {} schedule {:?}", case.scenario.name, case.schedule);
    if vs.is_empty() {
        println!("replay: no violation");
        return 0;
    }
    let findings = crate::known::load();
    for v in vs {
        let k = crate::known::is_known(&findings, &v.property, &v.signature).is_some();
        println!("{} property={} replay={path}\n  signature: {}\n  {}", if k { "KNOWN-FINDING:" } else { "VIOLATION" }, v.property, v.signature, v.message);
    }
    1
}

/// Re-runs the saved (scenario, schedule) pairs of earlier findings.
pub fn replay_regressions(want_c10: bool) -> (Stats, u64) {
    let findings = crate::known::load();
    let mut st = Stats::default();
    let mut n = 0;
    if let Ok(rd) = std::fs::read_dir("/verif/regress/sched") {
        let mut files: Vec<_> = rd.filter_map(|e| e.ok()).map(|e| e.path()).collect();
        files.sort();
        for f in files {
            let body: serde_json::Value = match std::fs::read_to_string(&f).ok().and_then(|s| serde_json::from_str(&s).ok()) {
                Some(b) => b,
                None => continue,
            };
            let case: Case = match serde_json::from_value(body["case"].clone()) {
                Ok(c) => c,
                Err(_) => continue,
            };
            let serial = match serial_outcomes(&case.scenario, 0) {
                Ok(s) => s,
                Err(_) => continue,
            };
            let out = execute(&case.scenario, &case.schedule, 0);
            n += 1;
            let rep = CaseReport { violations: judge(&case.scenario, &out, &serial, want_c10), ..Default::default() };
            let (unknown, kn) = runner::triage(&findings, &rep);
            st.absorb(&rep);
            for k in kn {
                *st.known_hits.entry((k.property, k.signature)).or_insert(0) += 1;
            }
            if let Some(v) = unknown.first() {
                st.failures.push((v.clone(), body["case"].clone()));
            }
        }
    }
    (st, n)
}

pub fn run(ctx: &Ctx) -> i32 {
    let started = Instant::now();
    sched::install();
    if let Some(p) = &ctx.replay {
        return replay(p);
    }
    let mut ex = explore(ctx, true);
    // replay tier: the schedules of earlier findings
    let (rs, rn) = replay_regressions(true);
    ex.stats.merge(rs);
    let mut ev = Evidence::default();
    ev.extra.insert("regression_schedules_replayed".into(), json!(rn));
    ev.level = "exploration".into();
    ev.rule = format!(
        "{} scenarios (7 chain situations x 7 API operations, acceptance-time triggers, duplicate submissions, last-slot races, 4 triples); per scenario all schedules \
         with at most {} preemptions at lock-acquisition granularity are enumerated depth-first (triples: bound one lower, then random schedules), each on a freshly \
         booted real tower; oracle: outcome (replies, sqlite store, node submissions) must equal the outcome of one of the sequential orders. evaluations = schedules executed. \
         Non-trivial = a thread was switched out while holding a lock of the tower; distinct = distinct (scenario, choice sequence).",
        ex.scenarios,
        if ctx.thorough() { 3 } else { 2 }
    );
    ev.extra.insert("scenarios".into(), json!(ex.scenarios));
    ev.extra.insert("schedules_executed".into(), json!(ex.schedules));
    ev.extra.insert("harness_watchdog_hits(inconclusive)".into(), json!(ex.hung));
    ev.exhaustive = Some(false);
    ev.assumptions = vec![
        "scheduling points are lock acquisitions and condvar waits of the tower's own mutexes; atomics, sqlite internals and the node are atomic at this granularity".into(),
        "API handlers run on plain threads (the tokio multi-thread runtime is replaced)".into(),
        "bounded number of preemptions per schedule".into(),
    ];
    let hung = ex.hung;
    let code = runner::conclude(ctx, "C10", ex.stats, ev, started);
    if code == 0 && hung > 0 {
        eprintln!("inconclusive: the scheduler watchdog fired {hung} times");
        return 2;
    }
    code
}

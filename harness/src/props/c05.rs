//! C05 — the client never loses an appointment, whatever the towers do.
//! Real client process; 1-3 scripted towers; revocations (some delivered twice), tower behaviours per request,
//! outages, SIGKILLs at protocol boundaries and at the client's own crash points, restarts on the same directory.
//! Oracle (sqlite file + RPC): every revocation whose hook call was answered is, for every registered,
//! non-abandoned, non-misbehaving tower, recorded as accepted (receipt verifies), pending (+body) or invalid (+body).

use std::collections::{BTreeMap, BTreeSet};
use std::path::PathBuf;
use std::time::{Duration, Instant};

use proptest::prelude::*;
use serde::{Deserialize, Serialize};
use serde_json::{json, Value};

use teos_common::receipts::AppointmentReceipt;

use crate::evidence::Evidence;
use crate::plugbox::*;
use crate::runner::{self, Campaign, CaseReport, Ctx, Violation};

#[derive(Debug, Clone, Serialize, Deserialize)]
pub enum Step {
    /// deliver revocation number n (a repeated number is a duplicate notification)
    Revoke(u8),
    /// from now on tower t answers add_appointment like this
    Behave(u8, Behaviour),
    Down(u8),
    Up(u8),
    Wait(u16),
    /// SIGKILL the client right now, restart it on the same directory
    Kill,
    /// deliver revocation n and SIGKILL the client once the towers have served `after` more requests (or after 1.5 s)
    RevokeAndKill(u8, u8),
    /// restart the client so that it dies at its k-th durable write from then on (then restart it normally)
    CrashAtWrite(u8),
    RetryTower(u8),
    /// from now on tower t holds every reply back for this many 100 ms (requests stay in flight)
    Slow(u8, u8),
    /// abandontower t, sent without waiting for whatever is in flight
    Abandon(u8),
    /// wait (up to 6 s) until tower t is serving a request of the client, then abandontower t
    AbandonInFlight(u8),
    /// wait (up to 9 s) until tower t's idle retrier is flagged to start again, then abandontower t at once
    AbandonWhenWaking(u8),
}

#[derive(Debug, Clone, Serialize, Deserialize)]
pub struct Case {
    pub towers: u8,
    pub steps: Vec<Step>,
}

fn v(sig: &str, msg: String) -> Violation {
    Violation { property: "C05".into(), signature: sig.into(), message: msg }
}

/// What the sqlite file says about (tower, locator).
#[derive(Debug, Default, Clone)]
struct Recorded {
    receipt: Option<(u32, String, String)>,
    pending: bool,
    invalid: bool,
    body: bool,
}

fn read_db(dir: &PathBuf) -> Option<(BTreeSet<String>, BTreeSet<String>, BTreeMap<(String, String), Recorded>)> {
    let conn = rusqlite::Connection::open_with_flags(dir.join("watchtowers_db.sql3"), rusqlite::OpenFlags::SQLITE_OPEN_READ_ONLY).ok()?;
    // one read transaction: all tables are seen at the same instant
    conn.execute_batch("BEGIN").ok()?;
    let mut towers = BTreeSet::new();
    let mut st = conn.prepare("SELECT hex(tower_id) FROM towers").ok()?;
    let mut rows = st.query([]).ok()?;
    while let Ok(Some(r)) = rows.next() {
        towers.insert(r.get::<_, String>(0).ok()?.to_lowercase());
    }
    let mut misbehaving = BTreeSet::new();
    let mut st = conn.prepare("SELECT hex(tower_id) FROM misbehaving_proofs").ok()?;
    let mut rows = st.query([]).ok()?;
    while let Ok(Some(r)) = rows.next() {
        misbehaving.insert(r.get::<_, String>(0).ok()?.to_lowercase());
    }
    let mut bodies = BTreeSet::new();
    let mut st = conn.prepare("SELECT hex(locator) FROM appointments").ok()?;
    let mut rows = st.query([]).ok()?;
    while let Ok(Some(r)) = rows.next() {
        bodies.insert(r.get::<_, String>(0).ok()?.to_lowercase());
    }
    let mut map: BTreeMap<(String, String), Recorded> = BTreeMap::new();
    let mut st = conn.prepare("SELECT hex(tower_id), hex(locator), start_block, user_signature, tower_signature FROM appointment_receipts").ok()?;
    let mut rows = st.query([]).ok()?;
    while let Ok(Some(r)) = rows.next() {
        let k = (r.get::<_, String>(0).ok()?.to_lowercase(), r.get::<_, String>(1).ok()?.to_lowercase());
        map.entry(k).or_default().receipt = Some((r.get(2).ok()?, r.get(3).ok()?, r.get(4).ok()?));
    }
    for (table, is_pending) in [("pending_appointments", true), ("invalid_appointments", false)] {
        let mut st = conn.prepare(&format!("SELECT hex(tower_id), hex(locator) FROM {table}")).ok()?;
        let mut rows = st.query([]).ok()?;
        while let Ok(Some(r)) = rows.next() {
            let k = (r.get::<_, String>(0).ok()?.to_lowercase(), r.get::<_, String>(1).ok()?.to_lowercase());
            let e = map.entry(k.clone()).or_default();
            if is_pending {
                e.pending = true;
            } else {
                e.invalid = true;
            }
            e.body = bodies.contains(&k.1);
        }
    }
    Some((towers, misbehaving, map))
}

pub struct C05;

struct Run {
    p: Option<Plugin>,
    dir: PathBuf,
    opts: PluginOpts,
    towers: Vec<FakeTower>,
    /// revocations whose hook call was answered
    answered: BTreeSet<u8>,
    /// towers the user has abandoned (indices): no obligation any more, and they must stay gone
    abandoned: BTreeSet<usize>,
    kills: u32,
    crashes: u32,
    dup: u32,
    violations: Vec<Violation>,
    harness_trouble: bool,
}

impl Run {
    fn restart(&mut self, crash_at: Option<u64>) {
        self.p = None;
        match Plugin::start(&self.dir, self.opts, crash_at) {
            Ok(p) => self.p = Some(p),
            Err(e) => {
                // a client that cannot start on its own data directory has lost everything
                self.violations.push(v("client-does-not-restart", format!("the client does not come up again on its data directory: {e}")));
            }
        }
    }

    fn ensure_alive(&mut self) {
        let dead = match self.p.as_mut() {
            Some(p) => !p.alive(),
            None => true,
        };
        if dead && self.violations.is_empty() {
            self.crashes += 1;
            self.restart(None);
        }
    }

    fn revoke(&mut self, n: u8, wait: bool) -> Option<u64> {
        self.ensure_alive();
        let p = self.p.as_mut()?;
        if self.answered.contains(&n) {
            self.dup += 1;
        }
        let id = p.send("commitment_revocation", revocation_params(n as u32)).ok()?;
        if !wait {
            return Some(id);
        }
        match p.wait(id, Duration::from_secs(15)) {
            Ok(_) => {
                self.answered.insert(n);
            }
            Err(CallError::Dead(_)) => {} // died at an armed crash point: the hook was not answered, no obligation
            Err(e) => {
                let stderr = p.stderr_text();
                let sig = if stderr.contains("panicked at") { client_panic_sig(&stderr) } else { "hook-never-answered".into() };
                self.violations.push(v(&sig, format!("commitment_revocation #{n} was not answered ({e:?}); stderr: {}", stderr.lines().take(3).collect::<Vec<_>>().join(" | "))));
            }
        }
        None
    }

    fn twice_is_stable(&self, tid: &str, loc: &str, id: teos_common::UserId) -> bool {
        for _ in 0..4 {
            std::thread::sleep(Duration::from_millis(300));
            let Some((_, _, map)) = read_db(&self.dir) else { return false };
            let rec = map.get(&(tid.to_string(), loc.to_string())).cloned().unwrap_or_default();
            let accepted = rec.receipt.as_ref().map_or(false, |(sb, us, ts)| AppointmentReceipt::with_signature(us.clone(), *sb, ts.clone()).verify(&id));
            if accepted as u8 + (rec.pending && rec.body) as u8 + (rec.invalid && rec.body) as u8 <= 1 {
                return false;
            }
        }
        true
    }

    /// The oracle. `when` describes the moment.
    fn check(&mut self, when: &str) {
        if !self.violations.is_empty() {
            return;
        }
        self.ensure_alive();
        let (towers, misbehaving, map) = match read_db(&self.dir) {
            Some(x) => x,
            None => {
                self.harness_trouble = true;
                return;
            }
        };
        for (ti, t) in self.towers.iter().enumerate() {
            let tid = t.id_hex();
            if self.abandoned.contains(&ti) {
                // "Abandoning a tower deletes all ... that tower's records" (C18): nothing of the client may bring it back
                if towers.contains(&tid) {
                    self.violations.push(Violation { property: "C18".into(), signature: "abandoned-tower-is-back".into(), message: format!("{when}: tower {} was abandoned by the user (abandontower answered) and is in the towers table again without a new registertower", &tid[..8]) });
                    return;
                }
                continue;
            }
            if !towers.contains(&tid) || misbehaving.contains(&tid) {
                continue;
            }
            for n in self.answered.clone() {
                let (_, _, loc) = revocation(n as u32);
                let rec = map.get(&(tid.clone(), loc.to_string())).cloned().unwrap_or_default();
                let accepted = rec.receipt.as_ref().map_or(false, |(sb, us, ts)| AppointmentReceipt::with_signature(us.clone(), *sb, ts.clone()).verify(&t.id));
                let pending = rec.pending && rec.body;
                let invalid = rec.invalid && rec.body;
                let count = accepted as u8 + pending as u8 + invalid as u8;
                if count == 0 {
                    let detail = if rec.receipt.is_some() { "a receipt is stored but does not verify" } else if rec.pending || rec.invalid { "a link row exists but the appointment body is gone" } else { "no record at all" };
                    self.violations.push(v(
                        "appointment-lost",
                        format!("{when}: revocation #{n} (locator {loc}) is neither accepted, pending nor invalid for tower {} — {detail}", &tid[..8]),
                    ));
                    return;
                }
                if count > 1 {
                    // the client moves a record with two statements (add the new one, delete the old one): seeing both
                    // for an instant is not a durable state. Only a state that stays is reported.
                    if !self.twice_is_stable(&tid, &loc.to_string(), t.id) {
                        continue;
                    }
                    self.violations.push(v(
                        &format!("recorded-twice:{}{}{}", if accepted { "accepted+" } else { "" }, if pending { "pending+" } else { "" }, if invalid { "invalid" } else { "" }),
                        format!("{when}: revocation #{n} (locator {loc}) is recorded more than once for tower {}", &tid[..8]),
                    ));
                    return;
                }
            }
        }
        // the client still answers
        if let Some(p) = self.p.as_mut() {
            if let Err(e) = p.call("listtowers", json!([]), Duration::from_secs(15)) {
                let stderr = p.stderr_text();
                // the client may have died at the write the case armed (a retrier writing in the background): that is the
                // injected fault, not a wedged client; the next step restarts it
                if matches!(e, CallError::Dead(_)) && stderr.contains("verif: aborting at crash point") && !stderr.contains("panicked at") {
                    return;
                }
                let sig = if stderr.contains("panicked at") { client_panic_sig(&stderr) } else { "client-wedged".into() };
                self.violations.push(v(&sig, format!("{when}: listtowers is not answered ({e:?}); stderr: {}", stderr.lines().take(3).collect::<Vec<_>>().join(" | "))));
                return;
            }
            let stderr = p.stderr_text();
            if stderr.contains("panicked at") {
                self.violations.push(v(&client_panic_sig(&stderr), format!("{when}: a task of the client panicked: {}", stderr.lines().take(3).collect::<Vec<_>>().join(" | "))));
            }
        }
    }
}

pub fn client_panic_sig(stderr: &str) -> String {
    let mut lines = stderr.lines().skip_while(|l| !l.contains("panicked at"));
    let loc = lines.next().unwrap_or("");
    let msg = lines.next().unwrap_or("");
    let file = loc.split("panicked at ").nth(1).unwrap_or("").split(':').next().unwrap_or("").to_string();
    let msg = msg.split(" value:").next().unwrap_or(msg);
    let m: String = msg.chars().map(|c| if c.is_ascii_digit() { '#' } else { c }).take(60).collect();
    format!("client-panic@{file}:{m}")
}

impl Campaign for C05 {
    type Case = Case;
    fn name(&self) -> &str {
        "C05"
    }
    fn max_shrink_iters(&self) -> u32 {
        6
    }
    fn strategy(&self) -> BoxedStrategy<Case> {
        (1u8..=3)
            .prop_flat_map(|towers| {
                let behaviour = prop_oneof![
                    4 => Just(Behaviour::Accept),
                    2 => Just(Behaviour::SubscriptionError),
                    2 => prop_oneof![Just(33u8), Just(35), Just(6), Just(200)].prop_map(Behaviour::Reject),
                    2 => prop_oneof![Just(b"garbage".to_vec()), Just(vec![]), Just(b"<html>".to_vec()), Just(b"{\"a\":1}".to_vec())].prop_map(|b| Behaviour::Raw(200, b)),
                    1 => Just(Behaviour::Raw(502, b"<html>bad gateway</html>".to_vec())),
                    1 => Just(Behaviour::Reset),
                    1 => Just(Behaviour::WrongSig),
                    1 => Just(Behaviour::MalformedSig("abc".into())),
                    1 => Just(Behaviour::WrongShape("{\"error\":\"x\"}".into())),
                ];
                let step = prop_oneof![
                    8 => prop_oneof![4 => 1u8..=5, 1 => Just(1u8)].prop_map(Step::Revoke),
                    5 => (0..towers, behaviour).prop_map(|(t, b)| Step::Behave(t, b)),
                    3 => (0..towers).prop_map(Step::Down),
                    3 => (0..towers).prop_map(Step::Up),
                    2 => (100u16..1500).prop_map(Step::Wait),
                    2 => Just(Step::Kill),
                    2 => (1u8..=5, 0u8..3).prop_map(|(n, a)| Step::RevokeAndKill(n, a)),
                    3 => (1u8..9).prop_map(Step::CrashAtWrite),
                    1 => (0..towers).prop_map(Step::RetryTower),
                    2 => (0..towers, 0u8..12).prop_map(|(t, d)| Step::Slow(t, d)),
                    1 => (0..towers).prop_map(Step::Abandon),
                    1 => (0..towers).prop_map(Step::AbandonInFlight),
                    1 => (0..towers).prop_map(Step::AbandonWhenWaking),
                ];
                // one history in six opens with data pending at every tower and one slow tower coming back:
                // the deep state (a retrier's request in flight) that later steps can then interfere with
                (proptest::collection::vec(step, 2..10), 0u8..6, 0..towers, 1u8..=5, 0u8..4).prop_map(move |(mut steps, opening, t, n, then)| {
                    if opening == 0 {
                        let mut s: Vec<Step> = (0..towers).map(Step::Down).collect();
                        s.push(Step::Revoke(n));
                        s.push(Step::Slow(t, 10));
                        s.push(Step::Up(t));
                        match then {
                            0 => s.push(Step::AbandonInFlight(t)),
                            1 => s.push(Step::Kill),
                            _ => {}
                        }
                        steps.truncate(5);
                        s.append(&mut steps);
                        steps = s;
                    }
                    Case { towers, steps }
                })
            })
            .boxed()
    }

    fn run_case(&self, case: &Case, w: usize) -> CaseReport {
        let mut rep = CaseReport::default();
        let dir = crate::world::scratch_dir(&format!("c05-{w}"));
        let _ = std::fs::remove_dir_all(&dir);
        let towers: Vec<FakeTower> = (0..case.towers).map(|i| FakeTower::start(port_for(w, i as usize), i)).collect();
        let opts = PluginOpts { max_retry_time: 2, auto_retry_delay: 3, max_retry_interval: 1 };
        let mut run = Run { p: None, dir: dir.clone(), opts, towers, answered: BTreeSet::new(), abandoned: BTreeSet::new(), kills: 0, crashes: 0, dup: 0, violations: vec![], harness_trouble: false };
        run.restart(None);
        let mut classes: BTreeSet<String> = BTreeSet::new();
        // registration with every tower (valid)
        for t in 0..case.towers as usize {
            let arg = json!([format!("{}@127.0.0.1:{}", run.towers[t].id_hex(), run.towers[t].port)]);
            if let Some(p) = run.p.as_mut() {
                if p.call("registertower", arg, Duration::from_secs(15)).is_err() {
                    run.harness_trouble = true;
                }
            }
        }
        for (i, step) in case.steps.iter().enumerate() {
            if !run.violations.is_empty() || run.harness_trouble {
                break;
            }
            match step {
                Step::Revoke(n) => {
                    run.revoke(*n, true);
                }
                Step::Behave(t, b) => {
                    run.towers[*t as usize].set_default("/add_appointment", b.clone());
                    classes.insert(format!("tower-says:{}", match b { Behaviour::Accept => "accept".to_string(), Behaviour::SubscriptionError => "subscription-error".into(), Behaviour::Reject(_) => "reject".into(), Behaviour::Raw(..) | Behaviour::WrongShape(_) => "garbage".into(), Behaviour::Reset => "reset".into(), Behaviour::WrongSig => "wrong-signature".into(), Behaviour::MalformedSig(_) => "malformed-signature".into(), _ => "other".into() }));
                }
                Step::Down(t) => {
                    run.towers[*t as usize].set_up(false);
                    classes.insert("tower-down".into());
                }
                Step::Up(t) => run.towers[*t as usize].set_up(true),
                Step::Wait(ms) => std::thread::sleep(Duration::from_millis(*ms as u64)),
                Step::Kill => {
                    run.kills += 1;
                    if let Some(p) = run.p.as_mut() {
                        p.kill();
                    }
                    run.restart(None);
                    classes.insert("sigkill-at-rest".into());
                }
                Step::RevokeAndKill(n, after) => {
                    let served_before: usize = run.towers.iter().map(|t| t.served().len()).sum();
                    run.revoke(*n, false);
                    let deadline = Instant::now() + Duration::from_millis(1500);
                    while Instant::now() < deadline {
                        let served: usize = run.towers.iter().map(|t| t.served().len()).sum();
                        if served >= served_before + *after as usize {
                            break;
                        }
                        std::thread::sleep(Duration::from_millis(5));
                    }
                    run.kills += 1;
                    if let Some(p) = run.p.as_mut() {
                        p.kill();
                    }
                    run.restart(None);
                    classes.insert(format!("sigkill-mid-revocation-after-{after}-requests"));
                }
                Step::CrashAtWrite(k) => {
                    if let Some(p) = run.p.as_mut() {
                        p.kill();
                    }
                    run.restart(Some(*k as u64));
                    classes.insert("abort-at-durable-write".into());
                }
                Step::Slow(t, d) => {
                    run.towers[*t as usize].set_delay(*d as u64 * 100);
                    if *d > 0 {
                        classes.insert("slow-tower".into());
                    }
                }
                Step::Abandon(t) => {
                    run.ensure_alive();
                    let tid = run.towers[*t as usize].id_hex();
                    if let Some(p) = run.p.as_mut() {
                        if p.call("abandontower", json!([tid]), Duration::from_secs(15)).is_ok() {
                            run.abandoned.insert(*t as usize);
                        }
                    }
                    classes.insert("abandon".into());
                }
                Step::AbandonInFlight(t) => {
                    run.ensure_alive();
                    let deadline = Instant::now() + Duration::from_secs(6);
                    while Instant::now() < deadline && run.towers[*t as usize].in_flight() == 0 {
                        std::thread::sleep(Duration::from_millis(10));
                    }
                    let caught = run.towers[*t as usize].in_flight() > 0;
                    let tid = run.towers[*t as usize].id_hex();
                    if let Some(p) = run.p.as_mut() {
                        if p.call("abandontower", json!([tid]), Duration::from_secs(15)).is_ok() {
                            run.abandoned.insert(*t as usize);
                        }
                    }
                    classes.insert(if caught { "abandon-with-request-in-flight".into() } else { "abandon".into() });
                    // let the reply arrive and be handled
                    std::thread::sleep(Duration::from_millis(1200));
                }
                Step::AbandonWhenWaking(t) => {
                    run.ensure_alive();
                    let tid = run.towers[*t as usize].id_hex();
                    let needle = format!("Flagging {tid} for retry");
                    let seen_before = run.p.as_ref().map_or(0, |p| p.log_lines().iter().filter(|(_, l)| l.contains(&needle)).count());
                    let deadline = Instant::now() + Duration::from_secs(9);
                    let mut caught = false;
                    while Instant::now() < deadline {
                        let n = run.p.as_ref().map_or(0, |p| p.log_lines().iter().filter(|(_, l)| l.contains(&needle)).count());
                        if n > seen_before {
                            caught = true;
                            break;
                        }
                        // only a tower with something pending has a retrier at all
                        if run.p.as_ref().map_or(true, |p| !p.log_lines().iter().any(|(_, l)| l.contains(&tid) && (l.contains("Retrying tower") || l.contains("to pending")))) && Instant::now() + Duration::from_secs(8) < deadline {
                            break;
                        }
                        std::thread::sleep(Duration::from_millis(10));
                    }
                    if let Some(p) = run.p.as_mut() {
                        if p.call("abandontower", json!([tid]), Duration::from_secs(15)).is_ok() {
                            run.abandoned.insert(*t as usize);
                        }
                    }
                    classes.insert(if caught { "abandon-while-retrier-wakes-up".into() } else { "abandon".into() });
                    std::thread::sleep(Duration::from_millis(1300));
                }
                Step::RetryTower(t) => {
                    run.ensure_alive();
                    let tid = run.towers[*t as usize].id_hex();
                    if let Some(p) = run.p.as_mut() {
                        let _ = p.call("retrytower", json!([tid]), Duration::from_secs(15));
                    }
                }
            }
            std::thread::sleep(Duration::from_millis(150));
            run.check(&format!("after step #{i} {step:?}"));
        }
        // let things settle a little and look again (retriers moving data around must not lose it)
        if run.violations.is_empty() && !run.harness_trouble {
            std::thread::sleep(Duration::from_millis(1500));
            run.check("1.5 s after the last step");
        }
        if run.dup > 0 {
            classes.insert("duplicate-notification".into());
        }
        if run.crashes > 0 {
            classes.insert("client-died-at-armed-write".into());
        }
        rep.violations = std::mem::take(&mut run.violations);
        rep.nontrivial = classes.iter().any(|c| c.starts_with("tower-says:") && c != "tower-says:accept" || c.starts_with("sigkill") || c.starts_with("abort") || c == "tower-down");
        rep.classes = classes.into_iter().collect();
        rep.key = format!("{}|k{}|c{}", rep.classes.join(","), run.kills.min(3), run.crashes.min(3));
        rep.counters = vec![("revocations_answered".into(), run.answered.len() as u64), ("kills".into(), run.kills as u64), ("harness_trouble".into(), run.harness_trouble as u64)];
        rep.sample = Some(json!({"towers": case.towers, "steps": case.steps.iter().map(|s| format!("{s:?}").chars().take(80).collect::<String>()).collect::<Vec<_>>()}));
        drop(run);
        let _ = std::fs::remove_dir_all(&dir);
        rep
    }
}

pub fn run(ctx: &Ctx) -> i32 {
    let started = Instant::now();
    if let Some(p) = &ctx.replay {
        return runner::replay(&C05, p);
    }
    let mut c = ctx.clone();
    c.workers = 40;
    let regress = runner::replay_dir(&C05, "/verif/regress/plug", "C05-");
    let replayed = regress.evaluations;
    let mut stats = if regress.failures.is_empty() { runner::run_campaign(&C05, &c, if ctx.thorough() { 100 } else { 12 }) } else { runner::Stats::default() };
    stats.merge(regress);
    let mut ev = Evidence::default();
    ev.level = "fault_enumeration".into();
    ev.rule = "one case = a fresh real watchtower-client process + 1-3 scripted towers + 2-9 steps: revocations (numbers 1-5, repeats are duplicate notifications), a tower's answer to add_appointment from now on (accept / subscription error / rejection codes / garbage bodies / 502 / reset / wrong or malformed signature / wrong shape), tower down / up, waits, slow towers (replies held back 0-1.1 s, so requests are in flight when the next step happens), abandontower (at once / when the tower has a request in flight / when its idle retrier is flagged to start), SIGKILL at rest, SIGKILL after the towers served 0-2 requests of an in-flight revocation, abort at the client's k-th durable write (k in 1..8), retrytower. After EVERY step and again after 1.5 s: for every registered, non-misbehaving tower and every revocation whose hook call was answered, the sqlite file holds exactly one of {verifying receipt, pending + body, invalid + body} (all tables read in one read transaction; two records at once count only if they stay for 1.2 s, because the client moves a record with two statements); the client still answers listtowers and no task of it has panicked. Non-trivial = some tower misbehaved / was down, or the client was killed; distinct = distinct (behaviour classes, kills, crashes).".into();
    ev.assumptions = vec!["the client is killed by SIGKILL or abort(): sqlite's atomic commit is trusted".into(), "an RPC not answered within 15 s counts as never answered".into()];
    ev.extra.insert("regression_cases_replayed".into(), json!(replayed));
    runner::conclude(ctx, "C05", stats, ev, started)
}

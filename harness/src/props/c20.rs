//! C20 — effective config is CLI over file over defaults; unsafe configs are refused.
//! Real path: TOML file -> config::from_file -> Opt::from_iter_safe(argv) -> patch_with_options -> verify.
use std::time::Instant;

use proptest::prelude::*;
use serde::{Deserialize, Serialize};
use serde_json::json;
use structopt::StructOpt;

use teos::config::{self, Config, Opt};

use crate::evidence::Evidence;
use crate::runner::{self, Campaign, CaseReport, Ctx, Violation};

/// One option: value in the file (if present) and on the command line (if given).
#[derive(Debug, Clone, Serialize, Deserialize, Default)]
pub struct Src<T> {
    pub file: Option<T>,
    pub cli: Option<T>,
}

#[derive(Debug, Clone, Serialize, Deserialize, Default)]
pub struct Case {
    pub api_bind: Src<String>,
    pub api_port: Src<u16>,
    pub rpc_bind: Src<String>,
    pub rpc_port: Src<u16>,
    pub btc_network: Src<String>,
    pub btc_rpc_user: Src<String>,
    pub btc_rpc_password: Src<String>,
    pub btc_rpc_cookie: Src<String>,
    pub btc_rpc_connect: Src<String>,
    pub btc_rpc_port: Src<u16>,
    pub tor_control_port: Src<u16>,
    pub onion_hidden_service_port: Src<u16>,
    /// flags: (in file (value), on cli)
    pub debug: (Option<bool>, bool),
    pub deps_debug: (Option<bool>, bool),
    pub tor_support: (Option<bool>, bool),
    pub overwrite_key: (Option<bool>, bool),
    pub force_update: (Option<bool>, bool),
    /// file-only settings
    pub subscription_slots: Option<u32>,
    pub subscription_duration: Option<u32>,
    pub expiry_delta: Option<u32>,
    pub polling_delta: Option<u16>,
    pub internal_api_port: Option<u32>,
}

fn toml_str(s: &str) -> String {
    format!("\"{}\"", s.replace('\\', "\\\\").replace('"', "\\\""))
}

impl Case {
    pub fn toml(&self) -> String {
        let mut o = String::new();
        macro_rules! s {
            ($n:ident) => {
                if let Some(v) = &self.$n.file {
                    o.push_str(&format!("{} = {}\n", stringify!($n), toml_str(v)));
                }
            };
        }
        macro_rules! n {
            ($n:ident) => {
                if let Some(v) = &self.$n.file {
                    o.push_str(&format!("{} = {}\n", stringify!($n), v));
                }
            };
        }
        macro_rules! f {
            ($n:ident) => {
                if let Some(v) = &self.$n.0 {
                    o.push_str(&format!("{} = {}\n", stringify!($n), v));
                }
            };
        }
        macro_rules! p {
            ($n:ident) => {
                if let Some(v) = &self.$n {
                    o.push_str(&format!("{} = {}\n", stringify!($n), v));
                }
            };
        }
        s!(api_bind);
        n!(api_port);
        s!(rpc_bind);
        n!(rpc_port);
        s!(btc_network);
        s!(btc_rpc_user);
        s!(btc_rpc_password);
        s!(btc_rpc_cookie);
        s!(btc_rpc_connect);
        n!(btc_rpc_port);
        n!(tor_control_port);
        n!(onion_hidden_service_port);
        f!(debug);
        f!(deps_debug);
        f!(tor_support);
        f!(overwrite_key);
        f!(force_update);
        p!(subscription_slots);
        p!(subscription_duration);
        p!(expiry_delta);
        p!(polling_delta);
        p!(internal_api_port);
        o
    }

    pub fn argv(&self) -> Vec<String> {
        let mut a = vec!["teosd".to_string()];
        macro_rules! o {
            ($n:ident, $flag:expr) => {
                if let Some(v) = &self.$n.cli {
                    a.push(format!("--{}", $flag));
                    a.push(v.to_string());
                }
            };
        }
        o!(api_bind, "apibind");
        o!(api_port, "apiport");
        o!(rpc_bind, "rpcbind");
        o!(rpc_port, "rpcport");
        o!(btc_network, "btcnetwork");
        o!(btc_rpc_user, "btcrpcuser");
        o!(btc_rpc_password, "btcrpcpassword");
        o!(btc_rpc_cookie, "btcrpccookie");
        o!(btc_rpc_connect, "btcrpcconnect");
        o!(btc_rpc_port, "btcrpcport");
        o!(tor_control_port, "torcontrolport");
        o!(onion_hidden_service_port, "onionhiddenserviceport");
        for (on, name) in [
            (self.debug.1, "debug"),
            (self.deps_debug.1, "depsdebug"),
            (self.tor_support.1, "torsupport"),
            (self.overwrite_key.1, "overwritekey"),
            (self.force_update.1, "forceupdate"),
        ] {
            if on {
                a.push(format!("--{name}"));
            }
        }
        a
    }

    /// The precedence model of the statement.
    pub fn expected(&self) -> Result<Config, String> {
        let d = Config::default();
        fn pick<T: Clone>(s: &Src<T>, d: &T) -> T {
            s.cli.clone().or(s.file.clone()).unwrap_or(d.clone())
        }
        let mut c = Config {
            api_bind: pick(&self.api_bind, &d.api_bind),
            api_port: pick(&self.api_port, &d.api_port),
            rpc_bind: pick(&self.rpc_bind, &d.rpc_bind),
            rpc_port: pick(&self.rpc_port, &d.rpc_port),
            btc_network: pick(&self.btc_network, &d.btc_network),
            btc_rpc_user: pick(&self.btc_rpc_user, &d.btc_rpc_user),
            btc_rpc_password: pick(&self.btc_rpc_password, &d.btc_rpc_password),
            btc_rpc_cookie: pick(&self.btc_rpc_cookie, &d.btc_rpc_cookie),
            btc_rpc_connect: pick(&self.btc_rpc_connect, &d.btc_rpc_connect),
            btc_rpc_port: pick(&self.btc_rpc_port, &d.btc_rpc_port),
            tor_control_port: pick(&self.tor_control_port, &d.tor_control_port),
            onion_hidden_service_port: pick(&self.onion_hidden_service_port, &d.onion_hidden_service_port),
            debug: self.debug.1 || self.debug.0.unwrap_or(false),
            deps_debug: self.deps_debug.1 || self.deps_debug.0.unwrap_or(false),
            tor_support: self.tor_support.1 || self.tor_support.0.unwrap_or(false),
            // the two destructive one-shot switches only count on the command line
            overwrite_key: self.overwrite_key.1,
            force_update: self.force_update.1,
            subscription_slots: self.subscription_slots.unwrap_or(d.subscription_slots),
            subscription_duration: self.subscription_duration.unwrap_or(d.subscription_duration),
            expiry_delta: self.expiry_delta.unwrap_or(d.expiry_delta),
            min_to_self_delay: d.min_to_self_delay,
            polling_delta: self.polling_delta.unwrap_or(d.polling_delta),
            internal_api_bind: d.internal_api_bind.clone(),
            internal_api_port: self.internal_api_port.unwrap_or(d.internal_api_port),
        };
        let up = !c.btc_rpc_user.is_empty() && !c.btc_rpc_password.is_empty() && c.btc_rpc_cookie.is_empty();
        let ck = c.btc_rpc_user.is_empty() && c.btc_rpc_password.is_empty() && !c.btc_rpc_cookie.is_empty();
        if !(up || ck) {
            return Err("auth".into());
        }
        let (norm, port) = match c.btc_network.as_str() {
            "mainnet" | "main" => ("main", 8332),
            "testnet" | "test" => ("test", 18332),
            "regtest" => ("regtest", 18443),
            "signet" => ("signet", 38332),
            _ => return Err("network".into()),
        };
        c.btc_network = norm.into();
        if c.btc_rpc_port == 0 {
            c.btc_rpc_port = port;
        }
        Ok(c)
    }
}

pub fn run_one(c: &Case, dir: &std::path::Path) -> CaseReport {
    let mut rep = CaseReport::default();
    let path = dir.join("teos.toml");
    let toml = c.toml();
    let in_file = !toml.is_empty();
    if in_file {
        std::fs::write(&path, &toml).unwrap();
    } else {
        let _ = std::fs::remove_file(&path);
    }
    let mut conf = config::from_file::<Config>(&path);
    let argv = c.argv();
    let opt = match Opt::from_iter_safe(argv.iter()) {
        Ok(o) => o,
        Err(e) => {
            rep.violations.push(Violation {
                property: "C20".into(),
                signature: "cli-does-not-parse".into(),
                message: format!("documented options were not accepted: {argv:?}: {}", e.message.lines().next().unwrap_or("")),
            });
            return rep;
        }
    };
    conf.patch_with_options(opt);
    let got = conf.verify().map(|_| conf.clone());
    let exp = c.expected();
    match (&exp, &got) {
        (Ok(e), Ok(g)) => {
            if e != g {
                let ej = json!(e);
                let gj = json!(g);
                let diff: Vec<String> = ej
                    .as_object()
                    .unwrap()
                    .iter()
                    .filter(|(k, v)| gj[k.as_str()] != **v)
                    .map(|(k, v)| format!("{k}: expected {v}, effective {}", gj[k.as_str()]))
                    .collect();
                let field = ej.as_object().unwrap().iter().find(|(k, v)| gj[k.as_str()] != **v).map(|(k, _)| k.clone()).unwrap_or_default();
                rep.violations.push(Violation {
                    property: "C20".into(),
                    signature: format!("effective-setting-differs:{field}"),
                    message: format!("file:\n{toml}argv: {argv:?}\n{}", diff.join("; ")),
                });
            }
        }
        (Err(_), Err(_)) => {}
        (Ok(_), Err(e)) => rep.violations.push(Violation {
            property: "C20".into(),
            signature: "valid-config-refused".into(),
            message: format!("file:\n{toml}argv: {argv:?}\nrefused: {e}"),
        }),
        (Err(why), Ok(_)) => rep.violations.push(Violation {
            property: "C20".into(),
            signature: format!("unsafe-config-accepted:{why}"),
            message: format!("file:\n{toml}argv: {argv:?}\nwas accepted although the {why} setting is not acceptable"),
        }),
    }
    let both = [
        c.api_bind.file.is_some() && c.api_bind.cli.is_some(),
        c.api_port.file.is_some() && c.api_port.cli.is_some(),
        c.btc_network.file.is_some() && c.btc_network.cli.is_some(),
        c.btc_rpc_user.file.is_some() && c.btc_rpc_user.cli.is_some(),
        c.btc_rpc_port.file.is_some() && c.btc_rpc_port.cli.is_some(),
    ]
    .iter()
    .any(|x| *x);
    if both {
        rep.classes.push("option-in-file-and-on-cli".into());
    }
    if c.overwrite_key.0 == Some(true) || c.force_update.0 == Some(true) {
        rep.classes.push("destructive-switch-in-file".into());
    }
    rep.classes.push(match &exp {
        Ok(_) => "accepted".into(),
        Err(w) => format!("refused:{w}"),
    });
    rep.nontrivial = in_file || argv.len() > 1;
    rep.key = format!("{toml}|{argv:?}");
    rep.sample = Some(json!({"file": toml, "argv": argv, "expected": exp.as_ref().map(|_| "accepted").unwrap_or_else(|e| e.as_str())}));
    rep
}

fn src<T: Clone + std::fmt::Debug + 'static>(v: BoxedStrategy<T>) -> BoxedStrategy<Src<T>> {
    (proptest::option::weighted(0.4, v.clone()), proptest::option::weighted(0.4, v)).prop_map(|(file, cli)| Src { file, cli }).boxed()
}
fn word() -> BoxedStrategy<String> {
    prop_oneof![Just("".to_string()), "[a-z0-9.]{1,12}".prop_map(|s| s), Just("user name".to_string()), Just("päss\"w\\ord".to_string())].boxed()
}
fn network() -> BoxedStrategy<String> {
    prop_oneof![
        Just("mainnet".to_string()),
        Just("testnet".to_string()),
        Just("signet".to_string()),
        Just("regtest".to_string()),
        Just("main".to_string()),
        Just("test".to_string()),
        Just("bitcoin".to_string()),
        Just("Mainnet".to_string()),
        Just("".to_string()),
        Just("regtestnet".to_string()),
    ]
    .boxed()
}
fn port() -> BoxedStrategy<u16> {
    prop_oneof![Just(0u16), Just(1), Just(8332), Just(65535), any::<u16>()].boxed()
}
fn flag() -> BoxedStrategy<(Option<bool>, bool)> {
    (proptest::option::weighted(0.5, any::<bool>()), any::<bool>()).boxed()
}

pub struct C20 {
    dirs: Vec<std::path::PathBuf>,
}
impl Campaign for C20 {
    type Case = Case;
    fn name(&self) -> &str {
        "C20"
    }
    fn strategy(&self) -> BoxedStrategy<Case> {
        (
            (src(word()), src(port()), src(word()), src(port()), src(network()), src(word()), src(word()), src(word())),
            (src(word()), src(port()), src(port()), src(port())),
            (flag(), flag(), flag(), flag(), flag()),
            (
                proptest::option::of(any::<u32>()),
                proptest::option::of(any::<u32>()),
                proptest::option::of(any::<u32>()),
                proptest::option::of(any::<u16>()),
                proptest::option::of(any::<u32>()),
            ),
        )
            .prop_map(|(a, b, f, p)| Case {
                api_bind: a.0,
                api_port: a.1,
                rpc_bind: a.2,
                rpc_port: a.3,
                btc_network: a.4,
                btc_rpc_user: a.5,
                btc_rpc_password: a.6,
                btc_rpc_cookie: a.7,
                btc_rpc_connect: b.0,
                btc_rpc_port: b.1,
                tor_control_port: b.2,
                onion_hidden_service_port: b.3,
                debug: f.0,
                deps_debug: f.1,
                tor_support: f.2,
                overwrite_key: f.3,
                force_update: f.4,
                subscription_slots: p.0,
                subscription_duration: p.1,
                expiry_delta: p.2,
                polling_delta: p.3,
                internal_api_port: p.4,
            })
            .boxed()
    }
    fn run_case(&self, case: &Case, w: usize) -> CaseReport {
        run_one(case, &self.dirs[w % self.dirs.len()])
    }
}

/// The exhaustive grid: credentials (3 fields x {absent,file,cli,both}) x network (10 names x {file,cli,both,absent})
/// x rpc port ({absent,file,cli,both,file=0}) and, separately, every flag combination.
fn grid_case(mut i: u64) -> Case {
    let mut c = Case::default();
    let mut take = |n: u64| {
        let r = i % n;
        i /= n;
        r
    };
    let place = |sel: u64, a: &str, b: &str| -> Src<String> {
        match sel {
            0 => Src { file: None, cli: None },
            1 => Src { file: Some(a.into()), cli: None },
            2 => Src { file: None, cli: Some(a.into()) },
            _ => Src { file: Some(b.into()), cli: Some(a.into()) },
        }
    };
    c.btc_rpc_user = place(take(4), "alice", "bob");
    c.btc_rpc_password = place(take(4), "secret", "other");
    c.btc_rpc_cookie = place(take(4), "/tmp/.cookie", "/tmp/.other");
    let nets = ["mainnet", "testnet", "signet", "regtest", "main", "test", "bitcoin", "Mainnet", "", "regtestnet"];
    let n = take(10) as usize;
    c.btc_network = place(take(4), nets[n], nets[(n + 3) % 10]);
    c.btc_rpc_port = match take(5) {
        0 => Src { file: None, cli: None },
        1 => Src { file: Some(1234), cli: None },
        2 => Src { file: None, cli: Some(4321) },
        3 => Src { file: Some(1234), cli: Some(4321) },
        _ => Src { file: Some(0), cli: None },
    };
    let fl = take(1024);
    let f = |bit: u64| -> (Option<bool>, bool) { (if fl >> bit & 1 == 1 { Some(true) } else { None }, fl >> (bit + 5) & 1 == 1) };
    // flags only vary in the first slice of the grid to keep it finite: i/.. above
    c.debug = f(0);
    c.deps_debug = f(1);
    c.tor_support = f(2);
    c.overwrite_key = f(3);
    c.force_update = f(4);
    c
}
const GRID_MAIN: u64 = 4 * 4 * 4 * 10 * 4 * 5;

pub fn run(ctx: &Ctx) -> i32 {
    let started = Instant::now();
    let dirs: Vec<std::path::PathBuf> = (0..ctx.workers.max(1))
        .map(|w| {
            let d = crate::world::scratch_dir(&format!("c20-{w}"));
            std::fs::create_dir_all(&d).unwrap();
            d
        })
        .collect();
    let camp = C20 { dirs: dirs.clone() };
    if let Some(p) = &ctx.replay {
        return runner::replay(&camp, p);
    }
    // grid: main part with flags = 0, then all 1024 flag combinations with a valid credential/network setting
    let total = GRID_MAIN + 1024;
    let dirs2 = dirs.clone();
    let counter = std::sync::atomic::AtomicUsize::new(0);
    let mut stats = runner::run_indexed(ctx, total, &|i| {
        let case = if i < GRID_MAIN {
            grid_case(i)
        } else {
            let mut c = grid_case(GRID_MAIN * (i - GRID_MAIN)); // all flag combinations on a valid base: user+password and regtest in the file
            c.btc_rpc_user = Src { file: Some("alice".into()), cli: None };
            c.btc_rpc_password = Src { file: Some("secret".into()), cli: None };
            c.btc_rpc_cookie = Src::default();
            c.btc_network = Src { file: Some("regtest".into()), cli: None };
            c
        };
        let w = counter.fetch_add(1, std::sync::atomic::Ordering::Relaxed) % dirs2.len();
        // one directory per concurrent evaluation: use a per-thread sub-directory
        let d = dirs2[w].join(format!("t{:?}", std::thread::current().id()).replace(['(', ')'], ""));
        let _ = std::fs::create_dir_all(&d);
        let rep = run_one(&case, &d);
        (serde_json::to_value(&case).unwrap(), rep)
    });
    let grid_n = stats.evaluations;
    if stats.failures.is_empty() {
        let s2 = runner::run_campaign(&camp, ctx, if ctx.thorough() { 30_000 } else { 1_500 });
        stats.merge(s2);
    }
    for d in dirs {
        let _ = std::fs::remove_dir_all(d);
    }
    let mut ev = Evidence::default();
    ev.level = "exploration".into();
    ev.rule = format!(
        "exhaustive grid ({grid_n} configurations): each of the three credential fields absent / in file / on CLI / in both (different values), \
         10 network names (4 documented, main/test, 4 unknown) absent / file / CLI / both, rpc port absent / file / CLI / both / 0, and all 1024 \
         presence combinations of the five flags in file and on the CLI; plus random configurations over every option (values incl. empty strings, \
         quotes, port 0/65535). Real path: TOML file -> from_file -> Opt::from_iter_safe -> patch_with_options -> verify; every field of the effective \
         Config compared with the precedence model. Non-trivial = something set in file or on CLI; distinct = distinct (file, argv)."
    );
    ev.extra.insert("grid_configurations".into(), json!(grid_n));
    ev.assumptions = vec![
        "configuration files are valid TOML with values of the documented types (a malformed file falls back to defaults, which the property does not cover)".into(),
        "'main' and 'test' (bitcoind's own names) count as known networks".into(),
    ];
    runner::conclude(ctx, "C20", stats, ev, started)
}

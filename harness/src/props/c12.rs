//! C12 — a bitcoind outage never drops a response and the tower recovers by itself.
//!
//! The tower runs on real threads under the deterministic scheduler (one chain-monitor thread that polls,
//! request threads that call the public API). The node's fault script makes every call fail from the k-th
//! call of the concurrent phase on, until r polls have failed. k is enumerated over every call the
//! fault-free run makes. Oracle: (1) final state = fault-free run, (2) requests made while the tower knows
//! the node is down answer "unavailable", (3) nobody is blocked forever (decided structurally by the
//! scheduler: no runnable thread left), (4) a poll interrupted by a failed block download keeps its progress.

use std::collections::BTreeSet;
use std::sync::Arc;
use std::time::Instant;

use proptest::prelude::*;
use serde::{Deserialize, Serialize};
use serde_json::json;

use crate::evidence::Evidence;
use crate::ops::*;
use crate::plain::{api_call, node_op, setup_op, snapshot_digest, submissions};
use crate::runner::{self, CaseReport, Ctx, Stats, Violation};
use crate::sched;
use crate::simnode::{txs, Call, Node, Verdict};
use crate::towerbox::{Tower, TowerCfg};
use crate::world::{scratch_dir, SALT, START_HEIGHT};

#[derive(Debug, Clone, Serialize, Deserialize)]
pub struct Scenario {
    pub name: String,
    pub setup: Vec<Op>,
    /// what the chain-monitor thread does: Poll and node-side ops (blocks arriving)
    pub poll_script: Vec<Op>,
    /// what the request thread does
    pub req_script: Vec<Op>,
}

#[derive(Debug, Clone, Serialize, Deserialize)]
pub struct Case {
    pub scenario: Scenario,
    /// the outage starts at this call (1-based, counted over RPC + block-source calls of the concurrent phase); 0 = no outage
    pub outage_at: u32,
    /// polls that fail before the node is back
    pub outage_polls: u8,
    /// transport error kind (see simnode::FaultScript::kind)
    pub kind: u8,
    /// which thread starts: 0 = request thread, 1 = chain-monitor thread
    pub first: u8,
    /// a block is mined while the node is unreachable to the tower
    pub block_during_outage: bool,
    /// a flapping node: 0 = one outage; m > 0 = a second outage starts m calls after the first one ended
    #[serde(default)]
    pub flap: u8,
}

#[derive(Debug, Clone, PartialEq, Eq, Default)]
pub struct Final {
    pub users: Vec<String>,
    pub appts: Vec<String>,
    pub trackers: Vec<String>,
    pub node_penalties_known: Vec<String>,
}

pub struct Out {
    pub fin: Option<Final>,
    pub deadlock: Option<String>,
    pub panics: Vec<(String, String)>,
    pub calls: u32,
    pub replies: Vec<(String, bool, String)>, // (op, tower knew the node was down at call time, reply)
    pub outage_hit_thread: Option<String>,
    pub outage_hit_call: Option<String>,
    pub hung: bool,
    pub setup_failed: Option<String>,
    /// the node answered 'already in block chain' to a (re-)submission
    pub saw_already_in_chain: bool,
    /// thousands of calls failed within one outage (see simnode::FLOOD_LIMIT); was the tower's own flag still 'reachable' then?
    pub flooded: bool,
}

pub fn execute(case: &Case, slot: usize) -> Out {
    let sc = &case.scenario;
    let node = Node::new(START_HEIGHT, false);
    {
        let mut st = node.lock();
        for c in 0..8u32 {
            st.funded.insert(txs::funding(SALT, c));
        }
    }
    let dir = scratch_dir(&format!("c12-{slot}"));
    let _ = std::fs::remove_dir_all(&dir);
    let cfg = TowerCfg { slots: 10, duration: 1000, grace: 6 };
    let mut out = Out { fin: None, deadlock: None, panics: vec![], calls: 0, replies: vec![], outage_hit_thread: None, outage_hit_call: None, hung: false, setup_failed: None, saw_already_in_chain: false, flooded: false };
    let mut tower = match Tower::boot(node.clone(), &dir, cfg) {
        Ok(t) => t,
        Err(e) => {
            out.setup_failed = Some(format!("{e:?}"));
            return out;
        }
    };
    for op in &sc.setup {
        if let Err(e) = setup_op(&node, &mut tower, op) {
            out.setup_failed = Some(format!("{op:?}: {e}"));
            let _ = std::fs::remove_dir_all(&dir);
            return out;
        }
    }
    let calls_before = node.lock().calls;
    let log_from = node.log_len();
    {
        let mut st = node.lock();
        st.fault = Default::default();
        if case.outage_at > 0 {
            st.fault.outage_at_call = Some(calls_before + case.outage_at as usize);
            st.fault.outage_polls = case.outage_polls as usize;
            st.fault.kind = case.kind;
            if case.flap > 0 {
                st.fault.second_outage_after = Some(case.flap as usize);
            }
        }
    }
    let replies: Arc<std::sync::Mutex<Vec<(String, bool, String)>>> = Arc::new(std::sync::Mutex::new(vec![]));
    let api = tower.api.clone();
    let reachable = tower.reachable.clone();
    let res = {
        let tower_ref = &mut tower;
        let node2 = node.clone();
        let poll_script = sc.poll_script.clone();
        let extra_polls = case.outage_polls as usize + 3;
        let block_during = case.block_during_outage;
        let poll_body: Box<dyn FnOnce() + Send + '_> = Box::new(move || {
            let mut mined_during = false;
            let mut do_poll = |t: &mut Tower| {
                if block_during && !mined_during && node2.lock().fault.in_outage {
                    // the chain moves on while the tower cannot reach the node
                    crate::plain::mine_one(&node2, None, Take::All, &[]);
                    mined_during = true;
                }
                if let Err(p) = t.poll() {
                    if p == crate::faults::CRASH {
                        std::panic::resume_unwind(Box::new(crate::panics::HarnessUnwind("sched-abort")));
                    }
                    panic!("{p}");
                }
            };
            for op in &poll_script {
                if !node_op(&node2, None, op) {
                    do_poll(tower_ref);
                }
            }
            // the periodic polls that follow, with a sleep in between (requests run while the monitor sleeps); the monitor
            // keeps polling until the requests are through, but not forever: a request still stuck many polls after
            // the node came back is stuck for good
            let mut n = 0;
            loop {
                sched::sleep_point();
                do_poll(tower_ref);
                n += 1;
                if (sched::others_finished() && n >= extra_polls) || n >= extra_polls + 12 {
                    break;
                }
            }
        });
        let req_script = sc.req_script.clone();
        let replies2 = replies.clone();
        let node3 = node.clone();
        let req_body: Box<dyn FnOnce() + Send + '_> = Box::new(move || {
            for op in &req_script {
                // the tower knows: its own flag says so, or (independently of its bookkeeping) two of its calls have already
                // failed during the outage that is still going on - the first failure was handled before the second call was made
                let seen_failing = {
                    let st = node3.lock();
                    st.fault.in_outage && st.fault.outage_started_at_seq.map_or(false, |from| st.log[from.min(st.log.len())..].iter().filter(|e| e.verdict == Verdict::TransportError).count() >= 2)
                };
                let knew_down = !*reachable.0.lock().unwrap() || seen_failing;
                let r = api_call(&api, op);
                replies2.lock().unwrap().push((format!("{op:?}"), knew_down, r));
            }
        });
        let bodies = vec![("request".to_string(), req_body), ("chain-monitor".to_string(), poll_body)];
        let order = if case.first == 0 { vec![0, 1] } else { vec![1, 0] };
        sched::run_with(slot, bodies, &[], Some(order))
    };
    out.calls = (node.lock().calls - calls_before) as u32;
    out.flooded = node.lock().fault.flooded;
    out.replies = replies.lock().unwrap().clone();
    out.hung = res.hung;
    out.deadlock = res.deadlock.clone();
    out.panics = res.panics.clone();
    out.saw_already_in_chain = node.log_since(log_from).iter().any(|e| e.verdict == Verdict::Error(crate::simnode::RPC_VERIFY_ALREADY_IN_CHAIN));
    // which call did the outage hit first
    for e in node.log_since(log_from) {
        if e.verdict == Verdict::TransportError {
            out.outage_hit_thread = Some(e.thread.clone());
            out.outage_hit_call = Some(match e.call {
                Call::SendRawTransaction(_) => "sendrawtransaction".into(),
                Call::GetRawTransaction(_) => "getrawtransaction".into(),
                Call::GetBestBlock => "getbestblock".into(),
                Call::GetHeader(_) => "getheader".into(),
                Call::GetBlock(_) => "getblock".into(),
                _ => "?".into(),
            });
            break;
        }
    }
    if res.deadlock.is_none() && res.panics.is_empty() && !res.hung {
        // settle: two more blocks and polls so that pending penalties confirm in every run
        node.lock().fault = Default::default();
        let settle = std::panic::catch_unwind(std::panic::AssertUnwindSafe(|| {
            for _ in 0..2 {
                tower.poll()?;
                crate::plain::mine_one(&node, None, Take::All, &[]);
            }
            tower.poll()
        }));
        if let Ok(Ok(())) = settle {
            let snap = tower.snapshot();
            let (users, appts, _) = snapshot_digest(&snap);
            let trackers = snap.trackers.iter().map(|(k, r)| format!("{}:{}", hex::encode(&k[..4]), if r.confirmed { "confirmed" } else { "unconfirmed" })).collect();
            let st = node.lock();
            let mut known = vec![];
            for c in 0..4u8 {
                let p = crate::world::tx_of(TxRef::Penalty(c, 0, 0, 0));
                if st.knows(&p.compute_txid()) {
                    known.push(format!("penalty-of-channel-{c}"));
                }
            }
            out.fin = Some(Final { users, appts, trackers, node_penalties_known: known });
        } else {
            out.panics.push(("settle".into(), format!("{settle:?}")));
        }
    }
    let _ = submissions(&node, log_from);
    let _ = std::panic::catch_unwind(std::panic::AssertUnwindSafe(|| drop(tower)));
    let _ = std::fs::remove_dir_all(&dir);
    out
}

fn add(u: u8, chan: u8) -> Op {
    Op::Add { u, chan, dvar: 0, blob: BlobKind::Valid { len: 0, var: 0 }, delay: 42, sig: SigKind::Good }
}

pub fn scenarios() -> Vec<Scenario> {
    let reg0 = Op::Register { u: 0 };
    let d0 = Op::Mine { take: Take::All, extra: vec![TxRef::Dispute(0, 0)] };
    let plain = Op::Mine { take: Take::All, extra: vec![] };
    let get0 = Op::Get { u: 0, chan: 0, dvar: 0, sig: SigKind::Good };
    let sub0 = Op::SubInfo { u: 0, sig: SigKind::Good };
    vec![
        Scenario { name: "breach answered on the block path".into(), setup: vec![reg0.clone(), add(0, 0)], poll_script: vec![d0.clone(), Op::Poll], req_script: vec![get0.clone(), sub0.clone()] },
        Scenario { name: "breach answered on the request path".into(), setup: vec![reg0.clone(), d0.clone(), Op::Poll], poll_script: vec![Op::Poll], req_script: vec![add(0, 0), get0.clone()] },
        Scenario { name: "request-path breach while a block arrives".into(), setup: vec![reg0.clone(), d0.clone(), Op::Poll], poll_script: vec![plain.clone(), Op::Poll], req_script: vec![add(0, 0), add(0, 1)] },
        Scenario {
            name: "two breaches, one per path".into(),
            setup: vec![reg0.clone(), add(0, 1), d0.clone(), Op::Poll],
            poll_script: vec![Op::Mine { take: Take::All, extra: vec![TxRef::Dispute(1, 0)] }, Op::Poll, plain.clone(), Op::Poll],
            req_script: vec![add(0, 0), Op::Register { u: 1 }, get0.clone()],
        },
        Scenario {
            name: "stale penalty re-sent on the block path".into(),
            setup: vec![reg0.clone(), add(0, 0), d0.clone(), Op::Poll, Op::MineMany { n: 5, take: Take::NoPenalties }, Op::Poll],
            poll_script: vec![Op::Mine { take: Take::NoPenalties, extra: vec![] }, Op::Poll],
            req_script: vec![sub0.clone()],
        },
        Scenario {
            name: "reorg re-announcement on the block path".into(),
            setup: vec![reg0.clone(), add(0, 0), d0.clone(), Op::Poll, plain.clone(), Op::Poll],
            poll_script: vec![Op::Reorg { depth: 1, extra: 1, first: vec![], later_at: 0, later: vec![], evict: false }, Op::Poll],
            req_script: vec![get0.clone()],
        },
        Scenario { name: "multi-block poll, no breach".into(), setup: vec![reg0.clone()], poll_script: vec![plain.clone(), plain.clone(), plain.clone(), Op::Poll], req_script: vec![add(0, 0), get0] },
    ]
}

pub fn judge(case: &Case, out: &Out, reference: &Final) -> Vec<Violation> {
    if out.flooded {
        return vec![Violation {
            property: "C12".into(),
            signature: "calls-keep-failing-without-a-pause".into(),
            message: format!("scenario `{}`, outage from call #{} (flap {}): more than {} node calls failed within one outage - the tower retries without waiting for the node to be flagged reachable again (it has not noticed an outage it is in the middle of)", case.scenario.name, case.outage_at, case.flap, crate::simnode::FLOOD_LIMIT),
        }];
    }
    let mut v = vec![];
    let path = match out.outage_hit_thread.as_deref() {
        Some("chain-monitor") => "block-path",
        Some("request") => "request-path",
        _ => "none",
    };
    let call = out.outage_hit_call.clone().unwrap_or_default();
    if out.deadlock.is_none() && out.replies.len() < case.scenario.req_script.len() && out.panics.is_empty() {
        v.push(Violation {
            property: "C12".into(),
            signature: format!("request-never-answered:{path}"),
            message: format!("scenario `{}`, outage from call #{}: a request was still not answered a dozen polls after the node came back", case.scenario.name, case.outage_at),
        });
        return v;
    }
    if let Some(d) = &out.deadlock {
        // who waits for the node to come back, and who cannot go on because of it
        let waiter = if d.contains("chain-monitor waits on condvar") { "chain-monitor-waits-for-itself" } else if d.contains("request waits on condvar") { "request-waits-holding-what-the-chain-monitor-needs" } else { "other" };
        v.push(Violation {
            property: "C12".into(),
            signature: format!("blocked-forever:{waiter}:{path}:{}", if call.starts_with("get") && call != "getrawtransaction" { "block-source" } else { "carrier-rpc" }),
            message: format!(
                "scenario `{}`, outage from call #{} ({call} on the {path}), {} failing polls, block during outage: {}: no thread can run any more — {d}",
                case.scenario.name, case.outage_at, case.outage_polls, case.block_during_outage
            ),
        });
        return v;
    }
    for (t, p) in &out.panics {
        v.push(Violation {
            property: "C11".into(),
            signature: crate::panics::signature(p),
            message: format!("scenario `{}`, outage from call #{}: thread {t} aborted: {p}", case.scenario.name, case.outage_at),
        });
    }
    if !v.is_empty() {
        return v;
    }
    for (op, knew_down, reply) in &out.replies {
        if *knew_down && !reply.contains("Unavailable") {
            v.push(Violation {
                property: "C12".into(),
                signature: "served-while-node-known-down".into(),
                message: format!("scenario `{}`: {op} was answered `{reply}` although the tower had already flagged the node unreachable", case.scenario.name),
            });
            return v;
        }
    }
    if let Some(f) = &out.fin {
        // requests refused as unavailable are not retried by this harness: compare only when none was refused,
        // otherwise require the weaker "nothing responded in the reference is missing unless its request was refused"
        let refused: Vec<&String> = out.replies.iter().filter(|r| r.2.contains("Unavailable")).map(|r| &r.0).collect();
        if refused.is_empty() {
            // a submission the node processed before hanging up can be confirmed by the time it is retried: the node then says
            // 'already in chain' and the tower does not track it - an outcome the properties leave open (the penalty did get there)
            let tolerated = out.saw_already_in_chain
                && f.users == reference.users
                && f.appts == reference.appts
                && f.node_penalties_known == reference.node_penalties_known
                && f.trackers.iter().all(|t| reference.trackers.contains(t));
            if f != reference && !tolerated {
                v.push(Violation {
                    property: "C12".into(),
                    signature: format!("outage-changes-the-outcome:{path}:{call}"),
                    message: format!(
                        "scenario `{}`, outage from call #{} ({call} on the {path}), {} failing polls: after recovery the tower ends in {:?}, the fault-free run in {:?}",
                        case.scenario.name, case.outage_at, case.outage_polls, f, reference
                    ),
                });
            }
        } else {
            // every tracker the tower had before the concurrent phase, or created on the block path, must be there
            let missing: Vec<&String> = reference.trackers.iter().filter(|t| !f.trackers.contains(t)).collect();
            let refused_adds = refused.iter().filter(|r| r.starts_with("Add")).count();
            if missing.len() > refused_adds {
                v.push(Violation {
                    property: "C12".into(),
                    signature: format!("response-dropped-during-outage:{path}:{call}"),
                    message: format!("scenario `{}`, outage from call #{}: trackers {:?} of the fault-free run are missing ({} add requests were refused as unavailable)", case.scenario.name, case.outage_at, missing, refused_adds),
                });
            }
        }
    }
    v
}

pub fn run_case(findings: &[crate::known::Finding], case: &Case, reference: &Final, slot: usize) -> CaseReport {
    let out = execute(case, slot);
    let mut rep = CaseReport::default();
    if out.hung {
        rep.counters.push(("watchdog".into(), 1));
        return rep;
    }
    rep.violations = judge(case, &out, reference);
    let path = out.outage_hit_thread.clone().unwrap_or("none".into());
    let call = out.outage_hit_call.clone().unwrap_or("none".into());
    rep.classes = vec![format!("outage-hits:{path}:{call}"), format!("kind={}", case.kind), format!("polls={}", case.outage_polls), format!("block-during-outage={}", case.block_during_outage)];
    rep.nontrivial = call == "sendrawtransaction" || call == "getrawtransaction" || call == "getblock";
    rep.key = format!("{}|{}|{}|{}|{}|{}", case.scenario.name, case.outage_at, case.outage_polls, case.kind, case.first, case.block_during_outage);
    rep.sample = Some(json!({"scenario": case.scenario.name, "outage_at_call": case.outage_at, "hits": format!("{path}:{call}"), "failing_polls": case.outage_polls, "kind": case.kind, "first_thread": case.first, "block_during_outage": case.block_during_outage}));
    let _ = findings;
    rep
}

pub fn run(ctx: &Ctx) -> i32 {
    let started = Instant::now();
    sched::install();
    let findings = crate::known::load();
    if let Some(p) = &ctx.replay {
        crate::panics::VERBOSE.store(true, std::sync::atomic::Ordering::SeqCst);
        let body: serde_json::Value = serde_json::from_str(&std::fs::read_to_string(p).expect("read replay")).expect("json");
        let case: Case = serde_json::from_value(body["case"].clone()).expect("case");
        let reference = execute(&Case { outage_at: 0, ..case.clone() }, 0).fin.unwrap_or_default();
        let rep = run_case(&findings, &case, &reference, 0);
        println!("case: {}", serde_json::to_string(&case).unwrap());
        if rep.violations.is_empty() {
            println!("replay: no violation");
            return 0;
        }
        for v in rep.violations {
            let k = crate::known::is_known(&findings, &v.property, &v.signature).is_some();
            println!("{} property={} replay={p}\n  signature: {}\n  {}", if k { "KNOWN-FINDING:" } else { "VIOLATION" }, v.property, v.signature, v.message);
        }
        return 1;
    }
    // enumerate: scenario x first thread x (k over the calls of the fault-free run) x r x kind x block during outage
    let mut cases: Vec<(Case, Final)> = vec![];
    let rs: Vec<u8> = if ctx.thorough() { vec![1, 2, 3, 5] } else { vec![1, 2, 3] };
    for sc in scenarios() {
        for first in 0..2u8 {
            let base = Case { scenario: sc.clone(), outage_at: 0, outage_polls: 0, kind: 0, first, block_during_outage: false, flap: 0 };
            let dry = execute(&base, 0);
            let reference = match dry.fin {
                Some(f) => f,
                None => {
                    println!("VIOLATION property=C12 replay=/dev/null\n  the fault-free run of scenario `{}` did not finish: {:?} {:?} {:?}", sc.name, dry.deadlock, dry.panics, dry.setup_failed);
                    return 1;
                }
            };
            for k in 1..=dry.calls {
                for r in &rs {
                    for kind in 0..3u8 {
                        for bdo in [false, true] {
                            cases.push((Case { scenario: sc.clone(), outage_at: k, outage_polls: *r, kind, first, block_during_outage: bdo, flap: 0 }, reference.clone()));
                            // a flapping node: back for one or two calls, then gone again
                            if !bdo && (ctx.thorough() || *r <= 2) {
                                for flap in 1..=2u8 {
                                    cases.push((Case { scenario: sc.clone(), outage_at: k, outage_polls: *r, kind, first, block_during_outage: bdo, flap }, reference.clone()));
                                }
                            }
                        }
                    }
                }
            }
        }
    }
    let total = cases.len() as u64;
    let next = std::sync::atomic::AtomicUsize::new(0);
    let stats = std::sync::Mutex::new(Stats::default());
    std::thread::scope(|scope| {
        for w in 0..ctx.workers.min(sched::SLOTS) {
            let cases = &cases;
            let next = &next;
            let stats = &stats;
            let findings = &findings;
            scope.spawn(move || {
                let mut st = Stats::default();
                loop {
                    let i = next.fetch_add(1, std::sync::atomic::Ordering::Relaxed);
                    if i >= cases.len() {
                        break;
                    }
                    let (case, reference) = &cases[i];
                    let rep = run_case(findings, case, reference, w);
                    let (unknown, kn) = runner::triage(findings, &rep);
                    st.absorb(&rep);
                    for k in kn {
                        *st.known_hits.entry((k.property, k.signature)).or_insert(0) += 1;
                    }
                    if let Some(v) = unknown.first() {
                        if !st.failures.iter().any(|(w, _)| w.signature == v.signature) {
                            st.failures.push((v.clone(), json!(case)));
                        }
                    }
                }
                stats.lock().unwrap().merge(st);
            });
        }
    });
    let stats = stats.into_inner().unwrap();
    let watchdog = stats.counters.get("watchdog").cloned().unwrap_or(0);
    let mut ev = Evidence::default();
    ev.level = "fault_enumeration".into();
    ev.rule = format!(
        "{} reference scenarios (breach answered on the block path / on the request path / both, stale re-send, reorg re-announcement, multi-block poll) x which thread starts x an outage starting at EVERY call (RPC and block source) the fault-free run makes x failing polls in {:?} x 3 transport-error kinds x block mined during the outage or not (+ flapping node: a second outage 1 or 2 calls after the first ended) = {total} runs of the real tower on scheduler-controlled threads; oracle: state after recovery = fault-free run, 'unavailable' while the node is known down (the tower's own flag, or two of its calls already failed in the ongoing outage), nobody blocked forever (structural: no runnable thread). Non-trivial = the outage starts at a carrier RPC or a block download; distinct = distinct case tuples.",
        scenarios().len(),
        rs
    );
    ev.exhaustive = Some(true);
    ev.extra.insert("enumerated_runs".into(), json!(total));
    ev.assumptions = vec![
        "the chain monitor's periodic poll is modelled as a finite script of polls on one thread; 'time' only passes through those polls".into(),
        "threads run in a fixed deterministic interleaving (one thread until it blocks or finishes, then the other), both starting orders".into(),
    ];
    let code = runner::conclude(ctx, "C12", stats, ev, started);
    if code == 0 && watchdog > 0 {
        eprintln!("inconclusive: scheduler watchdog fired {watchdog} times");
        return 2;
    }
    code
}

//! C14 — the client trusts a tower only on valid signatures and survives any reply.
//! Real `watchtower-client` process, fake lightningd, scripted fake tower; replies on the notification path and on
//! the retry path, for register and add_appointment.

use std::time::{Duration, Instant};

use proptest::prelude::*;
use serde::{Deserialize, Serialize};
use serde_json::{json, Value};

use crate::evidence::Evidence;
use crate::plugbox::*;
use crate::runner::{self, Campaign, CaseReport, Ctx, Violation};

#[derive(Debug, Clone, Copy, Serialize, Deserialize, PartialEq, Eq)]
pub enum Situation {
    /// first registertower
    FirstRegistration,
    /// registertower for an already registered tower
    Renewal,
    /// add_appointment reply seen by the commitment_revocation hook
    Notification,
    /// add_appointment reply seen by a retrier (the tower was down when the revocation arrived)
    Retry,
}

#[derive(Debug, Clone, Serialize, Deserialize)]
pub struct Case {
    pub situation: Situation,
    pub reply: Behaviour,
}

fn v(sig: &str, msg: String) -> Violation {
    Violation { property: "C14".into(), signature: sig.into(), message: msg }
}

fn reply_class(b: &Behaviour) -> String {
    match b {
        Behaviour::Accept => "valid".into(),
        Behaviour::Refuse => "refused".into(),
        Behaviour::Reset => "connection-reset".into(),
        Behaviour::SubscriptionError => "subscription-error".into(),
        Behaviour::Reject(c) => format!("api-error-{}", if [1u8, 2, 3, 4, 5, 6, 32, 33, 34, 35, 36, 65].contains(c) { "documented" } else { "unknown-code" }),
        Behaviour::Raw(s, body) => format!("raw-{}-{}", s, if body.is_empty() { "empty" } else if body.len() > 100_000 { "huge" } else if serde_json::from_slice::<Value>(body).is_ok() { "json" } else { "non-json" }),
        Behaviour::WrongSig => "signature-by-another-key".into(),
        Behaviour::WrongSigField(f, _) => format!("signature-by-another-key+other-{f}"),
        Behaviour::MalformedSig(_) => "undecodable-signature".into(),
        Behaviour::WrongShape(_) => "wrong-shape-json".into(),
        Behaviour::NotExtending(k) => format!("not-extending-{}", if *k == 0 { "expiry" } else { "slots" }),
        Behaviour::FieldReplaced(f, j) => format!("field-{}-{}", f, if j == "null!" { "dropped".to_string() } else { j.chars().take(12).collect() }),
    }
}

/// Is this a panic message on the child's stderr?
fn panicked(stderr: &str) -> Option<String> {
    stderr.lines().find(|l| l.contains("panicked at")).map(|l| l.to_string())
}

fn panic_sig(stderr: &str) -> String {
    // "thread 'x' panicked at watchtower-plugin/src/net/http.rs:138:90:" + next line message
    let mut lines = stderr.lines().skip_while(|l| !l.contains("panicked at"));
    let loc = lines.next().unwrap_or("");
    let msg = lines.next().unwrap_or("");
    let file = loc.split("panicked at ").nth(1).unwrap_or("").split(':').next().unwrap_or("").to_string();
    // the part of the message that names the failing operation, not the particular value
    let msg = msg.split(" value:").next().unwrap_or(msg);
    let m: String = msg.chars().map(|c| if c.is_ascii_digit() { '#' } else { c }).take(60).collect();
    format!("client-panic@{file}:{m}")
}

pub struct C14;

impl Campaign for C14 {
    type Case = Case;
    fn name(&self) -> &str {
        "C14"
    }
    fn max_shrink_iters(&self) -> u32 {
        4
    }

    fn strategy(&self) -> BoxedStrategy<Case> {
        let sig_strings = prop_oneof![
            Just(String::new()),
            Just("abc".to_string()),
            Just("!".repeat(104)),
            "[ybndrfg8ejkmcpqxot1uwisza345h769]{103}".prop_map(|s| s),
            "[ybndrfg8ejkmcpqxot1uwisza345h769]{105}".prop_map(|s| s),
            "[ybndrfg8ejkmcpqxot1uwisza345h769]{104}".prop_map(|s| s),
            "[lv02 ]{104}".prop_map(|s| s),
            Just("ü".repeat(52)),
        ];
        let field_vals = prop_oneof![Just("null!".to_string()), Just("null".to_string()), Just("\"str\"".to_string()), Just("-1".to_string()), Just("4294967296".to_string()), Just("1.5".to_string()), Just("true".to_string()), Just("[]".to_string()), Just("{}".to_string()), Just("0".to_string())];
        let raw_bodies = prop_oneof![
            Just(vec![]),
            Just(b"garbage".to_vec()),
            Just(b"<html><body>502 Bad Gateway</body></html>".to_vec()),
            Just(b"{".to_vec()),
            Just(b"null".to_vec()),
            Just(b"[]".to_vec()),
            Just(b"\"string\"".to_vec()),
            proptest::collection::vec(any::<u8>(), 1..200),
            Just(vec![b'a'; 1 << 20]),
            Just("é".repeat(300).into_bytes()),
        ];
        let shapes = prop_oneof![
            Just("{\"error\":\"only text\"}".to_string()),
            Just("{\"error_code\":7}".to_string()),
            Just("{\"error\":7,\"error_code\":\"seven\"}".to_string()),
            Just("{\"error\":\"x\",\"error_code\":256}".to_string()),
            Just("{\"error\":\"x\",\"error_code\":-1}".to_string()),
            Just("{}".to_string()),
            Just("{\"locator\":\"00\"}".to_string()),
        ];
        (prop_oneof![1 => Just(Situation::FirstRegistration), 1 => Just(Situation::Renewal), 3 => Just(Situation::Notification), 3 => Just(Situation::Retry)], any::<u8>())
            .prop_flat_map(move |(situation, _)| {
                let fields: Vec<&'static str> = if matches!(situation, Situation::FirstRegistration | Situation::Renewal) {
                    vec!["user_id", "available_slots", "subscription_start", "subscription_expiry", "subscription_signature"]
                } else {
                    vec!["locator", "start_block", "signature", "available_slots", "subscription_expiry"]
                };
                let reply = prop_oneof![
                    2 => Just(Behaviour::Accept),
                    3 => Just(Behaviour::WrongSig),
                    2 => if fields.contains(&"locator") {
                        prop_oneof![
                            Just(Behaviour::WrongSigField("locator".into(), format!("\"{}\"", "ab".repeat(16)))),
                            Just(Behaviour::WrongSigField("available_slots".into(), "5".into())),
                            Just(Behaviour::WrongSigField("subscription_expiry".into(), "77".into())),
                        ].boxed()
                    } else {
                        Just(Behaviour::WrongSig).boxed()
                    },
                    4 => sig_strings.clone().prop_map(Behaviour::MalformedSig),
                    5 => (proptest::sample::select(fields), field_vals.clone()).prop_map(|(f, j)| Behaviour::FieldReplaced(f.to_string(), j)),
                    1 => (0u8..2).prop_map(Behaviour::NotExtending),
                    1 => Just(Behaviour::SubscriptionError),
                    3 => prop_oneof![Just(1u8), Just(5), Just(6), Just(32), Just(33), Just(35), Just(36), Just(65), Just(0), Just(8), Just(200), Just(255)].prop_map(Behaviour::Reject),
                    4 => (proptest::sample::select(vec![200u16, 400, 401, 404, 500, 503]), raw_bodies.clone()).prop_map(|(s, b)| Behaviour::Raw(s, b)),
                    2 => shapes.clone().prop_map(Behaviour::WrongShape),
                    1 => Just(Behaviour::Reset),
                ];
                reply.prop_map(move |reply| Case { situation, reply })
            })
            .boxed()
    }

    fn run_case(&self, case: &Case, w: usize) -> CaseReport {
        let mut rep = CaseReport::default();
        rep.classes = vec![format!("{:?}", case.situation), format!("reply:{}", reply_class(&case.reply))];
        rep.nontrivial = case.reply != Behaviour::Accept;
        rep.key = format!("{:?}|{}", case.situation, reply_class(&case.reply));
        rep.sample = Some(json!({"situation": format!("{:?}", case.situation), "reply": format!("{:?}", case.reply).chars().take(200).collect::<String>()}));
        let dir = crate::world::scratch_dir(&format!("c14-{w}"));
        let _ = std::fs::remove_dir_all(&dir);
        let tower = FakeTower::start(port_for(w, 0), 0);
        let opts = PluginOpts { max_retry_time: 3, auto_retry_delay: 30, max_retry_interval: 1 };
        let mut p = match Plugin::start(&dir, opts, None) {
            Ok(p) => p,
            Err(e) => {
                rep.counters.push(("harness_start_failures".into(), 1));
                eprintln!("plugin start failed: {e}");
                return rep;
            }
        };
        let t = Duration::from_secs(15);
        let tower_arg = json!([format!("{}@127.0.0.1:{}", tower.id_hex(), tower.port)]);
        let mut fail = |rep: &mut CaseReport, sig: &str, msg: String| {
            rep.violations.push(v(sig, format!("{:?} with reply {:?}: {msg}", case.situation, format!("{:?}", case.reply).chars().take(160).collect::<String>())));
        };
        let valid = case.reply == Behaviour::Accept;
        match case.situation {
            Situation::FirstRegistration | Situation::Renewal => {
                let renewal = case.situation == Situation::Renewal;
                if renewal {
                    if p.call("registertower", tower_arg.clone(), t).is_err() {
                        rep.counters.push(("harness_setup_failures".into(), 1));
                        return rep;
                    }
                }
                let before = p.call("listtowers", json!([]), t).unwrap_or(Value::Null);
                tower.script("/register", vec![case.reply.clone()]);
                let r = p.call("registertower", tower_arg.clone(), t);
                let after = p.call("listtowers", json!([]), t);
                match (&r, &after) {
                    (Err(CallError::Timeout), _) | (Err(CallError::Dead(_)), _) | (_, Err(_)) => {
                        let sig = panicked(&p.stderr_text()).map(|_| panic_sig(&p.stderr_text())).unwrap_or("registertower-never-answered".into());
                        fail(&mut rep, &sig, format!("the client did not answer (registertower: {r:?}, listtowers afterwards: {:?}); stderr: {}", after.as_ref().err(), p.stderr_text().lines().take(3).collect::<Vec<_>>().join(" | ")));
                    }
                    (r, Ok(after)) => {
                        // recorded <=> the receipt verifies under the supplied id and strictly extends what is known
                        let extends = valid || (!renewal && matches!(case.reply, Behaviour::NotExtending(_)));
                        let slots_before = before[tower.id_hex()]["available_slots"].as_u64();
                        let slots_after = after[tower.id_hex()]["available_slots"].as_u64();
                        let recorded = slots_after.is_some() && slots_after != slots_before;
                        if recorded && !extends {
                            fail(&mut rep, "unverified-registration-recorded", format!("the registration was recorded (slots {slots_before:?} -> {slots_after:?}) although the reply is not a valid extending receipt"));
                        }
                        if !recorded && extends {
                            fail(&mut rep, "valid-registration-not-recorded", format!("a valid extending receipt was not recorded: {r:?}"));
                        }
                        if r.is_ok() != extends {
                            fail(&mut rep, "registertower-outcome", format!("registertower answered {r:?}"));
                        }
                    }
                }
            }
            Situation::Notification | Situation::Retry => {
                if p.call("registertower", tower_arg.clone(), t).is_err() {
                    rep.counters.push(("harness_setup_failures".into(), 1));
                    return rep;
                }
                let (_, _, loc) = revocation(1);
                if case.situation == Situation::Retry {
                    tower.set_up(false);
                }
                tower.script("/add_appointment", vec![case.reply.clone()]);
                let r = p.call("commitment_revocation", revocation_params(1), t);
                if r.is_err() {
                    let sig = panicked(&p.stderr_text()).map(|_| panic_sig(&p.stderr_text())).unwrap_or("hook-never-answered".into());
                    fail(&mut rep, &sig, format!("the commitment_revocation hook was not answered: {r:?}; stderr: {}", p.stderr_text().lines().take(3).collect::<Vec<_>>().join(" | ")));
                } else {
                    if case.situation == Situation::Retry {
                        tower.set_up(true);
                        // let the retrier deliver (first attempts happen within ~2 s of polling + back-off)
                        let deadline = Instant::now() + Duration::from_secs(8);
                        while Instant::now() < deadline && !tower.served().iter().any(|s| s.path == "/add_appointment") {
                            std::thread::sleep(Duration::from_millis(100));
                        }
                        std::thread::sleep(Duration::from_millis(700));
                    }
                    let info = p.call("gettowerinfo", json!([tower.id_hex()]), t);
                    let list = p.call("listtowers", json!([]), t);
                    match (&info, &list) {
                        (Ok(info), Ok(_)) => {
                            let status = info["status"].as_str().unwrap_or("").to_string();
                            let has_receipt = info["appointments"].get(loc.to_string()).is_some();
                            let proof = info.get("misbehaving_proof").cloned().unwrap_or(Value::Null);
                            match &case.reply {
                                Behaviour::Accept => {
                                    if !has_receipt || status != "reachable" {
                                        fail(&mut rep, "valid-acknowledgement-not-recorded", format!("status {status}, receipt stored: {has_receipt}"));
                                    }
                                }
                                Behaviour::WrongSig | Behaviour::WrongSigField(..) => {
                                    let expected_id = hex::encode(crate::world::user_pk(99).serialize());
                                    if status != "misbehaving" || proof.is_null() {
                                        fail(&mut rep, "bad-signature-not-flagged", format!("an acknowledgement signed by another key left the tower `{status}` (proof stored: {})", !proof.is_null()));
                                    } else if proof["locator"] != json!(loc.to_string()) || proof["recovered_id"] != json!(expected_id) {
                                        fail(&mut rep, "misbehaviour-proof-wrong", format!("stored proof {proof} does not name locator {loc} and signer {expected_id}"));
                                    } else {
                                        // no further sending
                                        let before = tower.arrived();
                                        let _ = p.call("commitment_revocation", revocation_params(2), t);
                                        std::thread::sleep(Duration::from_millis(2500));
                                        let after = tower.arrived();
                                        if after != before {
                                            fail(&mut rep, "sent-to-misbehaving-tower", format!("{} more requests reached the tower after it was proven misbehaving", after - before));
                                        } else if {
                                            // ... not after the user has renewed the subscription with that tower either (the renewal itself
                                            // is the user's doing; appointments are what must not go there any more)
                                            let adds = |t: &FakeTower| t.served().iter().filter(|s| s.path == "/add_appointment").count();
                                            let before_adds = adds(&tower);
                                            let _ = p.call("registertower", tower_arg.clone(), t);
                                            let _ = p.call("commitment_revocation", revocation_params(3), t);
                                            std::thread::sleep(Duration::from_millis(2500));
                                            let st = p.call("gettowerinfo", json!([tower.id_hex()]), t).map(|i| i["status"].as_str().unwrap_or("").to_string()).unwrap_or_default();
                                            let more = adds(&tower) - before_adds;
                                            if more > 0 || st != "misbehaving" {
                                                fail(&mut rep, "sent-to-misbehaving-tower", format!("after the subscription with the tower was renewed, {more} more appointments were sent to it (shown as `{st}`)"));
                                                true
                                            } else {
                                                false
                                            }
                                        } {
                                        } else {
                                            let after = tower.arrived();
                                            // ... and not after a restart either (whatever else is still on record for that tower)
                                            p.kill();
                                            match Plugin::start(&dir, opts, None) {
                                                Ok(mut p2) => {
                                                    std::thread::sleep(Duration::from_millis(3000));
                                                    let st = p2.call("gettowerinfo", json!([tower.id_hex()]), t).map(|i| i["status"].as_str().unwrap_or("").to_string()).unwrap_or_default();
                                                    let after2 = tower.arrived();
                                                    if after2 != after {
                                                        fail(&mut rep, "sent-to-misbehaving-tower", format!("after a restart of the client {} more requests reached the tower that had been proven misbehaving (shown as `{st}`)", after2 - after));
                                                    } else if st != "misbehaving" {
                                                        fail(&mut rep, "misbehaving-forgotten-over-restart", format!("after a restart the tower is shown `{st}`"));
                                                    }
                                                    p = p2;
                                                }
                                                Err(e) => fail(&mut rep, "client-does-not-restart", e),
                                            }
                                        }
                                    }
                                }
                                _ => {
                                    if status == "misbehaving" && !matches!(case.reply, Behaviour::FieldReplaced(..) | Behaviour::MalformedSig(_)) {
                                        fail(&mut rep, "flagged-without-proof", format!("the tower was flagged misbehaving on reply {:?}", reply_class(&case.reply)));
                                    }
                                    // (a reply whose fields do not match what the tower signed recovers to another key: the tower is
                                    // flagged, and the receipt that is kept then is the proof of it, not an acknowledgement)
                                    if has_receipt && !(status == "misbehaving" && !proof.is_null()) {
                                        // a receipt may only be stored if the tower's signature verifies
                                        let rc = p.call("getappointmentreceipt", json!([tower.id_hex(), loc.to_string()]), t).unwrap_or(Value::Null);
                                        let ok = teos_common::receipts::AppointmentReceipt::with_signature(rc["user_signature"].as_str().unwrap_or("").into(), rc["start_block"].as_u64().unwrap_or(0) as u32, rc["signature"].as_str().unwrap_or("").into()).verify(&tower.id);
                                        if !ok {
                                            fail(&mut rep, "unverified-acknowledgement-recorded", format!("a receipt that does not verify under the tower id was stored: {rc}"));
                                        }
                                    }
                                }
                            }
                        }
                        _ => {
                            let sig = panicked(&p.stderr_text()).map(|_| panic_sig(&p.stderr_text())).unwrap_or("client-wedged".into());
                            fail(&mut rep, &sig, format!("after the reply the client no longer answers (gettowerinfo: {:?}, listtowers: {:?}); stderr: {}", info.as_ref().err(), list.as_ref().err(), p.stderr_text().lines().take(3).collect::<Vec<_>>().join(" | ")));
                        }
                    }
                }
            }
        }
        if rep.violations.is_empty() {
            if let Some(l) = panicked(&p.stderr_text()) {
                let sig = panic_sig(&p.stderr_text());
                fail(&mut rep, &sig, format!("a task of the client panicked: {l}"));
            } else if !p.alive() {
                fail(&mut rep, "client-exited", "the client process is gone".into());
            }
        }
        // a wedged retrier: is the client flooding the tower?
        let served = tower.served();
        if rep.violations.is_empty() && served.len() > 40 {
            fail(&mut rep, "request-flood", format!("{} requests reached the tower within a few seconds", served.len()));
        }
        drop(p);
        let _ = std::fs::remove_dir_all(&dir);
        rep
    }
}

pub fn run(ctx: &Ctx) -> i32 {
    let started = Instant::now();
    if let Some(p) = &ctx.replay {
        return runner::replay(&C14, p);
    }
    // process-level cases mostly sleep: run many at once
    let mut c = ctx.clone();
    c.workers = 40;
    let regress = runner::replay_dir(&C14, "/verif/regress/plug", "C14-");
    let replayed = regress.evaluations;
    let mut stats = if regress.failures.is_empty() { runner::run_campaign(&C14, &c, if ctx.thorough() { 150 } else { 15 }) } else { runner::Stats::default() };
    stats.merge(regress);
    let mut ev = Evidence::default();
    ev.level = "exploration".into();
    ev.rule = "one case = a fresh real watchtower-client process (fake lightningd on stdin/stdout) + a scripted fake tower: the reply under test is served to registertower (first registration / renewal), to the add_appointment sent by the commitment_revocation hook, or to the add_appointment sent by a retrier after an outage. Replies: valid; signature by another key; undecodable signatures (empty, short, 103/105 symbols, non-alphabet, unicode); every field dropped / null / retyped / negative / 2^32 / float; non-extending receipts; subscription error; documented and unknown error codes; raw bodies (empty, text, HTML, truncated JSON, random bytes, 1 MiB, non-ASCII) under status 200/4xx/5xx; wrong-shape JSON; connection reset. Oracle: registration recorded iff valid and extending; wrong-key acknowledgement => misbehaving + exact proof + no further request; otherwise every RPC/hook answered, process alive, no panic on stderr, no receipt stored that does not verify, no request flood. Non-trivial = the reply is not the valid one; distinct = distinct (situation, reply class).".into();
    ev.assumptions = vec!["a tower that never answers (stall) is not a reply and is not generated".into(), "timing: an RPC not answered within 15 s counts as never answered".into()];
    ev.extra.insert("regression_cases_replayed".into(), json!(replayed));
    runner::conclude(ctx, "C14", stats, ev, started)
}

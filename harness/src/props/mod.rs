pub mod c03;
pub mod c10;
pub mod c11;
pub mod c12;
pub mod c05;
pub mod c13;
pub mod c14;
pub mod inreorg;
pub mod c15;
pub mod c16;
pub mod c17;
pub mod c18;
pub mod c19;
pub mod c20;
pub mod plugsmoke;
pub mod smoke;
pub mod tower;

use crate::runner::Ctx;

pub fn dispatch(ctx: &Ctx) -> i32 {
    match ctx.property.as_str() {
        "C03" => c03::run(ctx),
        "C10" => c10::run(ctx),
        "C11" => c11::run(ctx),
        "C12" => c12::run(ctx),
        "C05" => c05::run(ctx),
        "C13" => c13::run(ctx),
        "C14" => c14::run(ctx),
        "C15" => c15::run(ctx),
        "C16" => c16::run(ctx),
        "C17" => c17::run(ctx),
        "C18" => c18::run(ctx),
        "C19" => c19::run(ctx),
        "C20" => c20::run(ctx),
        "SMOKE" => smoke::run(ctx),
        "PLUGSMOKE" => plugsmoke::run(ctx),
        "FUZZSEEDS" => {
            crate::fuzzapi::write_seeds("/verif/fuzz/seeds");
            0
        }
        "C01" | "C02" | "C04" | "C06" | "C07" | "C08" | "C09" | "C11H" => tower::run(ctx),
        other => {
            eprintln!("no check for {other}");
            3
        }
    }
}

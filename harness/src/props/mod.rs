pub mod c19;

use crate::runner::Ctx;

pub fn dispatch(ctx: &Ctx) -> i32 {
    match ctx.property.as_str() {
        "C19" => c19::run(ctx),
        other => {
            eprintln!("no check for {other}");
            3
        }
    }
}

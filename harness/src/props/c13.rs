//! C13 — pending data is delivered once a tower recovers; status is truthful; one retry loop per tower;
//! the client backs off, ends up 'unreachable' with the data retained, and accepts a manual retry exactly
//! in the documented states.
//! Real client process, scripted towers, generated outage/recovery timings, error kinds, revocations arriving
//! in every retrier state, manual retries, restarts. Time is real (the retrier's clock is tokio's), so the
//! oracle's bounds are derived from the configured delays plus a stated slack, and a timing miss must
//! reproduce in a solo re-run (no other case running) to count.

use std::collections::{BTreeMap, BTreeSet};
use std::path::PathBuf;
use std::sync::RwLock;
use std::time::{Duration, Instant};

use proptest::prelude::*;
use serde::{Deserialize, Serialize};
use serde_json::{json, Value};

use crate::evidence::Evidence;
use crate::plugbox::*;
use crate::runner::{self, Campaign, CaseReport, Ctx, Violation};

static SOLO: RwLock<()> = RwLock::new(());
static CONFIRMED: std::sync::atomic::AtomicBool = std::sync::atomic::AtomicBool::new(false);

#[derive(Debug, Clone, Copy, PartialEq, Serialize, Deserialize)]
pub enum Mode {
    /// connection refused
    Down,
    /// accepts the connection and closes it
    Reset,
    /// 200 with a body that is not JSON
    Garbage,
    /// 502 with an HTML page
    BadGateway,
    /// 200 with a JSON document of the wrong shape
    WrongShape,
    /// a receipt whose signature does not decode
    MalformedSig,
    /// the subscription error code (the retrier re-registers, which works, and is told the same again)
    Subscription,
}



#[derive(Debug, Clone, Serialize, Deserialize)]
pub enum Step {
    Revoke(u8),
    Fail(u8, Mode),
    /// the tower rejects the next appointment it is sent (then behaves as before)
    RejectNext(u8),
    Recover(u8),
    /// 100 ms units
    Wait(u8),
    RetryTower(u8),
    Restart,
    /// the user's subscription with tower t runs out: appointments are answered with the subscription error until the
    /// client has registered again (which the tower accepts)
    Expire(u8),
    /// from now on tower t holds every reply (good or bad) back for this many 100 ms: requests are in flight when other things happen
    Slow(u8, u8),
    /// the next registration tower t answers does not extend the subscription (the client refuses such a renewal for good)
    RenewalNotExtending(u8),
}

#[derive(Debug, Clone, Serialize, Deserialize)]
pub struct Case {
    pub towers: u8,
    pub max_retry_time: u8,
    pub auto_retry_delay: u8,
    pub steps: Vec<Step>,
    /// slots a registration buys at the towers (0 = plenty): with 1 or 2 the subscription runs out of slots after an
    /// acknowledgement or two and the client has to renew by itself to get the next appointment through
    #[serde(default)]
    pub grant: u8,
}

fn v(sig: &str, msg: String) -> Violation {
    Violation { property: "C13".into(), signature: sig.into(), message: msg }
}

const POLL: f64 = 1.0; // RetryManager's polling time
const SLACK: f64 = 3.0;

pub struct C13;

struct TowerTrack {
    failing_since: Option<Instant>,
    mode: Option<Mode>,
    /// (when, status, pending count) samples from listtowers
    samples: Vec<(Instant, String, usize)>,
    manual_or_restart: Vec<Instant>,
    rejected: BTreeSet<String>,
}

struct Run {
    p: Option<Plugin>,
    dir: PathBuf,
    opts: PluginOpts,
    towers: Vec<FakeTower>,
    track: Vec<TowerTrack>,
    answered: BTreeSet<u8>,
    /// logs of earlier processes of this case
    old_logs: Vec<Vec<(Instant, String)>>,
    violations: Vec<Violation>,
    timing: bool,
    classes: BTreeSet<String>,
    harness_trouble: bool,
}

impl Run {
    fn bound(&self) -> f64 {
        self.opts.max_retry_time as f64 + self.opts.auto_retry_delay as f64 + 3.0 * POLL + SLACK
    }

    fn sample(&mut self) {
        let Some(p) = self.p.as_mut() else { return };
        match p.call("listtowers", json!([]), Duration::from_secs(15)) {
            Ok(list) => {
                let now = Instant::now();
                for (i, t) in self.towers.iter().enumerate() {
                    let e = &list[t.id_hex()];
                    if e.is_object() {
                        self.track[i].samples.push((now, e["status"].as_str().unwrap_or("?").to_string(), e["pending_appointments"].as_array().map_or(0, |a| a.len())));
                    }
                }
            }
            Err(e) => {
                let stderr = p.stderr_text();
                let sig = if stderr.contains("panicked at") { super::c05::client_panic_sig(&stderr) } else { "client-wedged".into() };
                self.violations.push(v(&sig, format!("listtowers is not answered ({e:?}); stderr: {}", stderr.lines().take(3).collect::<Vec<_>>().join(" | "))));
            }
        }
    }

    fn wait(&mut self, secs: f64) {
        let end = Instant::now() + Duration::from_secs_f64(secs);
        while Instant::now() < end && self.violations.is_empty() {
            self.sample();
            let left = end.saturating_duration_since(Instant::now());
            std::thread::sleep(left.min(Duration::from_millis(200)));
        }
    }

    fn status(&mut self, t: usize) -> Option<String> {
        self.sample();
        self.track[t].samples.last().map(|s| s.1.clone())
    }

    fn retrier_state(&self, t: usize) -> &'static str {
        // from the log of the current process: last of "Retrying tower", "succeeded", "gave up", "Finished idling"
        let id = self.towers[t].id_hex();
        let Some(p) = self.p.as_ref() else { return "none" };
        let mut st = "stopped";
        for (_, l) in p.log_lines() {
            if !l.contains(&id) {
                continue;
            }
            if l.starts_with("Retrying tower") {
                st = "running";
            } else if l.starts_with("Retry strategy succeeded") {
                st = "stopped";
            } else if l.starts_with("Retry strategy gave up") {
                st = "idle";
            } else if l.contains("inished idling") {
                st = "waking";
            }
        }
        st
    }

    /// log-based oracles over one process's log
    fn check_log(&mut self, logs: &[(Instant, String)], events: &BTreeMap<usize, Vec<Instant>>) {
        for (i, t) in self.towers.iter().enumerate() {
            let id = t.id_hex();
            let mut running_since: Option<Instant> = None;
            let mut gave_up_at: Option<Instant> = None;
            let mut last_error: Option<Instant> = None;
            let mut errors_in_run = 0u32;
            for (at, l) in logs {
                if !l.contains(&id) {
                    continue;
                }
                if l.starts_with("Retrying tower") {
                    if let Some(s) = running_since {
                        self.violations.push(v("two-retry-loops-for-one-tower", format!("a retrier for tower {} was started {:?} after another one that has not finished", &id[..8], at.duration_since(s))));
                        return;
                    }
                    if let Some(g) = gave_up_at {
                        // woken before the auto-retry delay without anybody asking
                        let asked = events.get(&i).map_or(false, |ev| ev.iter().any(|e| *e >= g && *e <= *at));
                        let idle = at.duration_since(g).as_secs_f64();
                        if !asked && idle + 0.3 < self.opts.auto_retry_delay as f64 {
                            self.violations.push(v("retried-before-auto-retry-delay", format!("tower {}: the retrier gave up and was started again {idle:.2} s later; the configured auto-retry delay is {} s and nobody asked for a retry", &id[..8], self.opts.auto_retry_delay)));
                            self.timing = true;
                            return;
                        }
                    }
                    running_since = Some(*at);
                    gave_up_at = None;
                    last_error = None;
                    errors_in_run = 0;
                } else if l.starts_with("Retry strategy succeeded") || l.starts_with("Retry strategy gave up") {
                    if l.starts_with("Retry strategy gave up") {
                        gave_up_at = Some(*at);
                        if let Some(s) = running_since {
                            let ran = at.duration_since(s).as_secs_f64();
                            // the last back-off interval may start just before the limit and requests may take a while
                            if ran > self.opts.max_retry_time as f64 + 1.5 * self.opts.max_retry_interval as f64 + SLACK {
                                self.violations.push(v("retrier-runs-past-max-retry-time", format!("tower {}: a retry loop ran for {ran:.2} s; the configured maximum is {} s", &id[..8], self.opts.max_retry_time)));
                                self.timing = true;
                                return;
                            }
                        }
                    }
                    running_since = None;
                } else if l.starts_with("Retry error happened with") {
                    errors_in_run += 1;
                    // (no rule on the distance between two of these lines: their timestamps are taken when the harness reads
                    // them, and a reader thread that was kept waiting sees lines half a second apart arrive together. A loop
                    // without back-off shows in the count below and in the request rate measured at the tower.)
                    last_error = Some(*at);
                    let most = 2 + (self.opts.max_retry_time as f64 / 0.25) as u32;
                    if errors_in_run > most {
                        self.violations.push(v("no-back-off-between-attempts", format!("tower {}: {errors_in_run} failed attempts within one retry loop; with max-retry-time {} s the back-off allows at most {most}", &id[..8], self.opts.max_retry_time)));
                        return;
                    }
                }
            }
        }
    }

    /// request-rate oracle on what the towers saw (independent of the client's log)
    fn check_rate(&mut self) {
        for t in self.towers.iter() {
            let served = t.served();
            let adds: Vec<&Served> = served.iter().filter(|s| s.path == "/add_appointment").collect();
            // any 1 s window: a retry loop sends at most ~4 failing requests per second (250 ms minimum interval); be generous
            for (i, s) in adds.iter().enumerate() {
                let failing_in_window = adds[i..].iter().take_while(|x| x.at.duration_since(s.at) < Duration::from_secs(1)).filter(|x| !matches!(x.behaviour, Behaviour::Accept | Behaviour::Reject(_))).count();
                if failing_in_window > 12 {
                    self.violations.push(v("request-flood", format!("tower {} was sent {failing_in_window} add_appointment requests within one second while it kept failing", &t.id_hex()[..8])));
                    return;
                }
            }
        }
    }
}

impl Campaign for C13 {
    type Case = Case;
    fn name(&self) -> &str {
        "C13"
    }
    fn max_shrink_iters(&self) -> u32 {
        4
    }
    fn strategy(&self) -> BoxedStrategy<Case> {
        (1u8..=2, 1u8..=3, 2u8..=4)
            .prop_flat_map(|(towers, t, d)| {
                let mode = prop_oneof![
                    3 => Just(Mode::Down),
                    1 => Just(Mode::Reset),
                    2 => Just(Mode::Garbage),
                    1 => Just(Mode::BadGateway),
                    1 => Just(Mode::WrongShape),
                    1 => Just(Mode::MalformedSig),
                    2 => Just(Mode::Subscription),
                ];
                let step = prop_oneof![
                    6 => (1u8..=6).prop_map(Step::Revoke),
                    4 => (0..towers, mode).prop_map(|(t, m)| Step::Fail(t, m)),
                    1 => (0..towers).prop_map(Step::RejectNext),
                    3 => (0..towers).prop_map(Step::Recover),
                    // waits land in every phase of the cycle: running (< T), idle (T .. T+D+2), restarted
                    5 => prop_oneof![1u8..10, 10u8..40, 40u8..100].prop_map(Step::Wait),
                    3 => (0..towers).prop_map(Step::RetryTower),
                    1 => Just(Step::Restart),
                    2 => (0..towers).prop_map(Step::Expire),
                    3 => (0..towers, 0u8..12).prop_map(|(t, d)| Step::Slow(t, d)),
                    1 => (0..towers).prop_map(Step::RenewalNotExtending),
                ];
                // every history opens with an outage and a revocation, so that there is something to retry
                let slow_mode = prop_oneof![Just(Mode::Reset), Just(Mode::Garbage), Just(Mode::BadGateway), Just(Mode::Subscription), Just(Mode::MalformedSig)];
                ((0..towers), proptest::collection::vec(step, 1..8), 0u8..5, slow_mode, 8u8..11, 4u8..15, 2u8..13, 0u8..4, prop_oneof![3 => Just(0u8), 1 => Just(1u8), 1 => Just(2u8)]).prop_map(move |(t0, mut steps, opening, m, sd, w1, w2, recover_now, grant)| {
                    let mut t = t;
                    let mut s = if opening == 0 {
                        // one history in five: a slow tower failing with an answer (requests are in flight for most of the
                        // time), revocations arriving while the retrier is at work, and (half of the time) the tower coming
                        // back while that retry loop is still going
                        steps.truncate(4);
                        t = 4;
                        let mut s = vec![Step::Slow(t0, sd), Step::Fail(t0, m), Step::Revoke(1), Step::Wait(w1), Step::Revoke(2), Step::Wait(w2)];
                        if recover_now > 0 {
                            s.push(Step::Recover(t0));
                            s.push(Step::Wait(30));
                        } else {
                            s.push(Step::Revoke(3));
                        }
                        s
                    } else {
                        vec![Step::Fail(t0, Mode::Down), Step::Revoke(1)]
                    };
                    // (the generated mode of a later Fail step replaces this one)
                    s.append(&mut steps);
                    Case { towers, max_retry_time: t, auto_retry_delay: d, steps: s, grant }
                })
            })
            .boxed()
    }

    fn run_case(&self, case: &Case, w: usize) -> CaseReport {
        let (mut rep, timing) = {
            let _g = SOLO.read().unwrap();
            run_once(case, w)
        };
        if !rep.violations.is_empty() && timing && !CONFIRMED.load(std::sync::atomic::Ordering::SeqCst) {
            // a bound on real time was missed: only believed if it happens again with nothing else running
            // (once one miss has been confirmed that way the check has failed anyway; later ones, e.g. the shrinking
            // candidates, are taken as seen instead of stopping every worker for each of them)
            let _g = SOLO.write().unwrap();
            let (rep2, _) = run_once(case, w);
            if rep2.violations.is_empty() {
                rep.violations.clear();
                rep.counters.push(("timing_miss_not_reproduced_solo".into(), 1));
            } else {
                let c = rep.counters.clone();
                rep = rep2;
                rep.counters = c;
                rep.counters.push(("timing_miss_reproduced_solo".into(), 1));
                CONFIRMED.store(true, std::sync::atomic::Ordering::SeqCst);
            }
        }
        rep
    }
}

fn run_once(case: &Case, w: usize) -> (CaseReport, bool) {
    let mut rep = CaseReport::default();
    let dir = crate::world::scratch_dir(&format!("c13-{w}"));
    let _ = std::fs::remove_dir_all(&dir);
    let towers: Vec<FakeTower> = (0..case.towers).map(|i| FakeTower::start(port_for(w, i as usize), i)).collect();
    if case.grant > 0 {
        for t in &towers {
            t.small_subscriptions(case.grant as u32);
        }
    }
    let opts = PluginOpts { max_retry_time: case.max_retry_time as u32, auto_retry_delay: case.auto_retry_delay as u32, max_retry_interval: 1 };
    let track = (0..case.towers).map(|_| TowerTrack { failing_since: None, mode: None, samples: vec![], manual_or_restart: vec![], rejected: BTreeSet::new() }).collect();
    let mut run = Run { p: None, dir: dir.clone(), opts, towers, track, answered: BTreeSet::new(), old_logs: vec![], violations: vec![], timing: false, classes: BTreeSet::new(), harness_trouble: false };
    match Plugin::start(&dir, opts, None) {
        Ok(p) => run.p = Some(p),
        Err(_) => run.harness_trouble = true,
    }
    for t in 0..case.towers as usize {
        let arg = json!([format!("{}@127.0.0.1:{}", run.towers[t].id_hex(), run.towers[t].port)]);
        if let Some(p) = run.p.as_mut() {
            if p.call("registertower", arg, Duration::from_secs(15)).is_err() {
                run.harness_trouble = true;
            }
        }
    }
    // events that legitimately start a retrier early: manual retries, restarts
    let mut events: BTreeMap<usize, Vec<Instant>> = BTreeMap::new();
    let mut events_by_process: Vec<BTreeMap<usize, Vec<Instant>>> = vec![];
    for (i, step) in case.steps.iter().enumerate() {
        if !run.violations.is_empty() || run.harness_trouble {
            break;
        }
        match step {
            Step::Revoke(n) => {
                for t in 0..case.towers as usize {
                    let st = run.retrier_state(t);
                    run.classes.insert(format!("revocation-while-retrier-{st}"));
                }
                if let Some(p) = run.p.as_mut() {
                    match p.call("commitment_revocation", revocation_params(*n as u32), Duration::from_secs(15)) {
                        Ok(_) => {
                            run.answered.insert(*n);
                        }
                        Err(e) => {
                            let stderr = p.stderr_text();
                            let sig = if stderr.contains("panicked at") { super::c05::client_panic_sig(&stderr) } else { "hook-never-answered".into() };
                            run.violations.push(v(&sig, format!("step #{i}: commitment_revocation #{n} was not answered ({e:?}); stderr: {}", stderr.lines().take(3).collect::<Vec<_>>().join(" | "))));
                        }
                    }
                }
            }
            Step::Fail(t, m) => {
                let t = *t as usize;
                let tw = &run.towers[t];
                tw.set_up(true);
                match m {
                    Mode::Down => tw.set_up(false),
                    Mode::Reset => tw.set_default("/add_appointment", Behaviour::Reset),
                    Mode::Garbage => tw.set_default("/add_appointment", Behaviour::Raw(200, b"it works!".to_vec())),
                    Mode::BadGateway => tw.set_default("/add_appointment", Behaviour::Raw(502, b"<html>bad gateway</html>".to_vec())),
                    Mode::WrongShape => tw.set_default("/add_appointment", Behaviour::WrongShape("{\"status\":\"ok\"}".into())),
                    Mode::MalformedSig => tw.set_default("/add_appointment", Behaviour::MalformedSig("abc".into())),
                    Mode::Subscription => tw.set_default("/add_appointment", Behaviour::SubscriptionError),
                }
                if run.track[t].failing_since.is_none() || run.track[t].mode != Some(*m) {
                    run.track[t].failing_since = Some(Instant::now());
                }
                run.track[t].mode = Some(*m);
                run.classes.insert(format!("failure:{m:?}"));
            }
            Step::RejectNext(t) => {
                run.towers[*t as usize].script("/add_appointment", vec![Behaviour::Reject(33)]);
                run.classes.insert("rejection".into());
            }
            Step::Recover(t) => {
                let t = *t as usize;
                run.towers[t].set_default("/add_appointment", Behaviour::Accept);
                run.towers[t].set_up(true);
                if run.track[t].failing_since.take().is_some() {
                    let st = run.retrier_state(t);
                    run.classes.insert(format!("recovery-while-retrier-{st}"));
                }
                run.track[t].mode = None;
            }
            Step::Expire(t) => {
                run.towers[*t as usize].expire_subscription();
                let st = run.retrier_state(*t as usize);
                run.classes.insert(format!("subscription-expires-while-retrier-{st}"));
            }
            Step::RenewalNotExtending(t) => {
                run.towers[*t as usize].script("/register", vec![Behaviour::NotExtending(0)]);
                run.classes.insert("renewal-refused-once".into());
            }
            Step::Slow(t, d) => {
                run.towers[*t as usize].set_delay(*d as u64 * 100);
                if *d > 0 {
                    run.classes.insert("slow-tower".into());
                }
            }
            Step::Wait(d) => run.wait(*d as f64 / 10.0),
            Step::RetryTower(t) => {
                let t = *t as usize;
                let before = run.status(t);
                let rstate = run.retrier_state(t);
                let tid = run.towers[t].id_hex();
                let at = Instant::now();
                let r = run.p.as_mut().map(|p| p.call("retrytower", json!([tid]), Duration::from_secs(15)));
                let after = run.status(t);
                if let (Some(b), Some(a), Some(r)) = (before, after.clone(), r) {
                    run.classes.insert(format!("manual-retry-when-{b}"));
                    match (&r, b.as_str()) {
                        (Err(CallError::Timeout), _) | (Err(CallError::Dead(_)), _) => {
                            run.violations.push(v("client-wedged", format!("step #{i}: retrytower is not answered ({r:?})")));
                        }
                        // documented: "Tower status must be unreachable or have a subscription issue to manually retry"
                        (Ok(_), "reachable") | (Ok(_), "temporary_unreachable") | (Ok(_), "misbehaving") if a == b && rstate != "idle" && rstate != "waking" => {
                            run.violations.push(v(&format!("manual-retry-accepted-when-{b}"), format!("step #{i}: retrytower was accepted although the tower is shown {b} before and after the call")));
                        }
                        (Err(CallError::Rpc(e)), "unreachable") if a == "unreachable" => {
                            // refused although unreachable before and after: the only documented reason is a retrier that is
                            // running, which an unreachable tower does not have (a waking retrier sets temporary_unreachable first)
                            let msg = e.to_string();
                            if !(msg.contains("already being retried") && (rstate == "waking" || rstate == "running")) {
                                run.violations.push(v("manual-retry-refused-when-unreachable", format!("step #{i}: the tower is shown unreachable before and after the call, yet retrytower answers {msg}")));
                            }
                        }
                        _ => {}
                    }
                    if r.is_ok() {
                        events.entry(t).or_default().push(at);
                        run.track[t].manual_or_restart.push(at);
                    }
                }
            }
            Step::Restart => {
                if let Some(mut p) = run.p.take() {
                    p.kill();
                    run.old_logs.push(p.log_lines());
                    events_by_process.push(std::mem::take(&mut events));
                }
                match Plugin::start(&dir, opts, None) {
                    Ok(p) => run.p = Some(p),
                    Err(e) => run.violations.push(v("client-does-not-restart", format!("step #{i}: {e}"))),
                }
                for t in 0..case.towers as usize {
                    run.track[t].manual_or_restart.push(Instant::now());
                    if run.track[t].failing_since.is_some() {
                        run.track[t].failing_since = Some(Instant::now());
                    }
                }
                run.classes.insert("restart".into());
            }
        }
        run.wait(0.1);
    }

    // ---- "ends up unreachable with its data retained": look at every long failing stretch we happened to produce
    if run.violations.is_empty() && !run.harness_trouble {
        for t in 0..case.towers as usize {
            if let Some(since) = run.track[t].failing_since {
                // keep failing until one full cycle has certainly passed since the outage began / the last restart or manual retry
                let from = run.track[t].manual_or_restart.iter().copied().filter(|e| *e > since).max().unwrap_or(since);
                run.sample();
                let has_pending = run.track[t].samples.last().map_or(false, |s| s.2 > 0);
                // the clock of the obligation starts when something became pending during the outage, not when the outage began
                let from = run.track[t].samples.iter().filter(|s| s.0 > from).find(|s| s.2 > 0).map_or(from, |s| s.0 - Duration::from_millis(1));
                if has_pending {
                    let full = run.opts.max_retry_time as f64 + 1.5 + 2.0 * POLL + SLACK;
                    let left = full - from.elapsed().as_secs_f64();
                    if left > 0.0 {
                        run.wait(left);
                    }
                    run.sample();
                    // the obligation exists only if data was pending all along (a one-off rejection may have emptied the list)
                    // (from the first moment something was pending)
                    let seen: Vec<&(Instant, String, usize)> = run.track[t].samples.iter().filter(|s| s.0 > from).skip_while(|s| s.2 == 0).collect();
                    let pending_all_along = seen.iter().all(|s| s.2 > 0);
                    // (a tower whose subscription cannot be renewed ends up in `subscription_error`, the other state that waits for the user)
                    let unreachable_seen = seen.iter().any(|s| s.1 == "unreachable" || s.1 == "subscription_error");
                    if pending_all_along && !unreachable_seen && run.violations.is_empty() {
                        let statuses: Vec<String> = seen.iter().map(|s| s.1.clone()).collect::<BTreeSet<_>>().into_iter().collect();
                        run.violations.push(v("never-shown-unreachable", format!("tower {} kept failing ({:?}) for {:.1} s with data pending (max-retry-time {} s) but was never shown unreachable; statuses seen: {statuses:?}", &run.towers[t].id_hex()[..8], run.track[t].mode, from.elapsed().as_secs_f64(), run.opts.max_retry_time)));
                        run.timing = true;
                    }
                    if !pending_all_along {
                        // data may only leave the pending list because the tower took or rejected it
                        // (a reply served just before the outage began may be handled by the client just after)
                        let handled = run.towers[t].served().iter().any(|s| s.done + Duration::from_secs(3) > from && s.path == "/add_appointment" && matches!(s.behaviour, Behaviour::Accept | Behaviour::Reject(_)));
                        if !handled && run.violations.is_empty() {
                            run.violations.push(v("pending-data-not-retained", format!("tower {} kept failing, neither accepted nor rejected anything, and the client stopped listing the data as pending", &run.towers[t].id_hex()[..8])));
                        }
                        continue;
                    }
                    run.classes.insert("kept-failing-through-a-full-cycle".into());
                }
            }
        }
    }

    // ---- recovery: everything comes back; every pending appointment must be delivered within the bound
    if run.violations.is_empty() && !run.harness_trouble {
        for t in 0..case.towers as usize {
            run.towers[t].set_default("/add_appointment", Behaviour::Accept);
            run.towers[t].clear_scripts();
            run.towers[t].set_delay(0);
            run.towers[t].set_up(true);
            run.track[t].failing_since = None;
        }
        let recovered = Instant::now();
        // a tower that sells `grant` slots per registration takes `grant` appointments per renewal, and a renewal may cost a
        // whole retry cycle (subscription error -> back-off -> give up when max-retry-time is short): one bound per renewal needed
        run.sample();
        let most_pending = (0..case.towers as usize).map(|t| run.track[t].samples.last().map_or(0, |s| s.2)).max().unwrap_or(0);
        let renewals = if case.grant > 0 { ((most_pending + case.grant as usize - 1) / case.grant as usize).max(1) } else { 1 };
        let bound = run.bound() * renewals as f64;
        let mut done = false;
        while recovered.elapsed().as_secs_f64() < bound && run.violations.is_empty() {
            run.sample();
            if (0..case.towers as usize).all(|t| run.track[t].samples.last().map_or(false, |s| s.1 == "reachable" && s.2 == 0)) {
                done = true;
                break;
            }
            std::thread::sleep(Duration::from_millis(150));
        }
        // A renewal whose receipt does not extend the subscription is refused by the client for good: the tower is left in
        // `subscription_error` with its data, and delivery needs the user (documented). Then the manual retry must be accepted
        // and must deliver.
        if !done && run.violations.is_empty() {
            // (the client says so itself in its log: "Registration receipt does not contain more slots ..." / "... contains a
            // subscription expiry that is not higher ..."; besides the scripted non-extending receipts this happens when the
            // client's idea of its slots is stale because an acknowledgement was lost with a kill)
            let refused = |run: &Run, t: usize| {
                let id = run.towers[t].id_hex();
                run.p.as_ref().map_or(false, |p| p.log_lines().iter().any(|(_, l)| l.contains(&id) && l.contains("Registration receipt")))
            };
            let stuck: Vec<usize> = (0..case.towers as usize).filter(|t| run.track[*t].samples.last().map_or(false, |s| s.1 == "subscription_error" && s.2 > 0) && refused(&run, *t)).collect();
            if !stuck.is_empty() {
                for t in &stuck {
                    let tid = run.towers[*t].id_hex();
                    if let Some(p) = run.p.as_mut() {
                        match p.call("retrytower", json!([tid]), Duration::from_secs(15)) {
                            Ok(_) => {
                                run.classes.insert("manual-retry-after-a-refused-renewal".into());
                            }
                            Err(e) => run.violations.push(v("manual-retry-refused-when-subscription-error", format!("tower {} is shown subscription_error with data pending (a renewal had been refused), yet retrytower answers {e:?}", &tid[..8]))),
                        }
                    }
                }
                let again = Instant::now();
                while again.elapsed().as_secs_f64() < bound && run.violations.is_empty() {
                    run.sample();
                    if (0..case.towers as usize).all(|t| run.track[t].samples.last().map_or(false, |s| s.1 == "reachable" && s.2 == 0)) {
                        done = true;
                        break;
                    }
                    std::thread::sleep(Duration::from_millis(150));
                }
            }
        }
        // the client's rule that a renewal must add to what it believes it has may keep refusing (documented policy): then the
        // tower stays in subscription_error with its data, which is the truthful state
        if !done && run.violations.is_empty() {
            run.sample();
            let refused_for_good = (0..case.towers as usize).all(|t| {
                let last = run.track[t].samples.last().cloned();
                match last {
                    Some((_, st, n)) if st == "reachable" && n == 0 => true,
                    Some((_, st, n)) if st == "subscription_error" && n > 0 => {
                        let id = run.towers[t].id_hex();
                        run.p.as_ref().map_or(false, |p| p.log_lines().iter().filter(|(_, l)| l.contains(&id) && l.contains("Registration receipt")).count() >= 2)
                    }
                    _ => false,
                }
            });
            if refused_for_good {
                run.classes.insert("renewal-keeps-being-refused-by-the-client's-own-rule".into());
                done = true;
            }
        }
        if !done && run.violations.is_empty() {
            let what: Vec<String> = (0..case.towers as usize).map(|t| run.track[t].samples.last().map_or("?".into(), |s| format!("{} pending {}", s.1, s.2))).collect();
            run.violations.push(v("not-delivered-after-recovery", format!("{bound:.0} s after every tower recovered (max-retry-time {} s, auto-retry-delay {} s, 3 manager polls, {SLACK} s slack) the towers are shown {what:?}", run.opts.max_retry_time, run.opts.auto_retry_delay)));
            run.timing = true;
        }
        if done {
            run.classes.insert(format!("delivered-in-{}s", (recovered.elapsed().as_secs_f64()).ceil() as u32));
            // delivered means acknowledged: receipts in the database for every answered revocation (or invalid, if the tower rejected it)
            std::thread::sleep(Duration::from_millis(100));
            if let Some(p) = run.p.as_mut() {
                for t in 0..case.towers as usize {
                    let info = p.call("gettowerinfo", json!([run.towers[t].id_hex()]), Duration::from_secs(15)).unwrap_or(Value::Null);
                    if info["status"].as_str() == Some("subscription_error") {
                        // (left waiting for the user, see above: its data is pending, not acknowledged)
                        continue;
                    }
                    let rejected: BTreeSet<String> = run.towers[t].served().iter().filter(|s| matches!(s.behaviour, Behaviour::Reject(_))).filter_map(|s| s.body["appointment"]["locator"].as_str().map(|x| x.to_string())).collect();
                    run.track[t].rejected = rejected.clone();
                    for n in &run.answered {
                        let (_, _, loc) = revocation(*n as u32);
                        let loc = loc.to_string();
                        let acc = info["appointments"].get(&loc).is_some();
                        let inv = info["invalid_appointments"].get(&loc).is_some();
                        if !(acc || (inv && rejected.contains(&loc))) {
                            run.violations.push(v("not-acknowledged-after-recovery", format!("tower {} is shown reachable with nothing pending, but revocation #{n} ({loc}) has no receipt (invalid: {inv}, rejected by the tower: {})", &run.towers[t].id_hex()[..8], rejected.contains(&loc))));
                            break;
                        }
                    }
                }
            }
        }
    }

    // ---- log and rate oracles
    if run.violations.is_empty() {
        let mut all: Vec<(Vec<(Instant, String)>, BTreeMap<usize, Vec<Instant>>)> = vec![];
        for (l, e) in run.old_logs.clone().into_iter().zip(events_by_process.into_iter()) {
            all.push((l, e));
        }
        if let Some(p) = run.p.as_ref() {
            all.push((p.log_lines(), events));
        }
        for (l, e) in all {
            if run.violations.is_empty() {
                run.check_log(&l, &e);
            }
        }
    }
    if run.violations.is_empty() {
        run.check_rate();
    }
    if run.violations.is_empty() {
        if let Some(p) = run.p.as_ref() {
            let stderr = p.stderr_text();
            if stderr.contains("panicked at") {
                run.violations.push(v(&super::c05::client_panic_sig(&stderr), format!("a task of the client panicked: {}", stderr.lines().take(3).collect::<Vec<_>>().join(" | "))));
            }
        }
    }
    let idle_data = run.p.as_ref().map_or(false, |p| p.log_lines().iter().any(|(_, l)| l.contains("Data was send to an idle retrier")));
    if idle_data {
        run.classes.insert("data-sent-to-idle-retrier-logged".into());
    }

    if std::env::var("VERIF_DEBUG").is_ok() {
        if let Some(p) = run.p.as_ref() {
            println!("  stderr: {}", p.stderr_text());
            let t0 = p.started;
            for (at, l) in p.log_lines() {
                println!("  log +{:.2}: {l}", at.duration_since(t0).as_secs_f64());
            }
            for (t, tr) in run.track.iter().enumerate() {
                let mut last = String::new();
                for (at, st, n) in &tr.samples {
                    let cur = format!("{st}/{n}");
                    if cur != last && *at > t0 {
                        println!("  tower {t} +{:.2}: {cur}", at.duration_since(t0).as_secs_f64());
                        last = cur;
                    }
                }
                for s in run.towers[t].served() {
                    if s.at > t0 {
                        println!("  tower {t} served +{:.2}: {} {:?}", s.at.duration_since(t0).as_secs_f64(), s.path, s.behaviour);
                    }
                }
            }
        }
    }
    rep.violations = std::mem::take(&mut run.violations);
    rep.nontrivial = run.classes.iter().any(|c| c.starts_with("recovery-while") || c.starts_with("kept-failing") || c.starts_with("manual-retry"));
    rep.classes = run.classes.iter().cloned().collect();
    rep.key = rep.classes.iter().filter(|c| !c.starts_with("delivered-in")).cloned().collect::<Vec<_>>().join(",");
    rep.counters = vec![("harness_trouble".into(), run.harness_trouble as u64), ("revocations_answered".into(), run.answered.len() as u64)];
    rep.sample = Some(json!({"towers": case.towers, "max_retry_time": case.max_retry_time, "auto_retry_delay": case.auto_retry_delay, "steps": case.steps.iter().map(|s| format!("{s:?}")).collect::<Vec<_>>()}));
    let timing = run.timing;
    drop(run);
    let _ = std::fs::remove_dir_all(&dir);
    (rep, timing)
}

pub fn run(ctx: &Ctx) -> i32 {
    let started = Instant::now();
    if let Some(p) = &ctx.replay {
        return runner::replay(&C13, p);
    }
    let mut c = ctx.clone();
    c.workers = 48;
    let regress = runner::replay_dir(&C13, "/verif/regress/plug", "C13-");
    let replayed = regress.evaluations;
    let mut stats = if regress.failures.is_empty() { runner::run_campaign(&C13, &c, if ctx.thorough() { 30 } else { 3 }) } else { runner::Stats::default() };
    stats.merge(regress);
    let mut ev = Evidence::default();
    ev.level = "exploration".into();
    ev.rule = "one case = a fresh real watchtower-client process with generated watchtower-max-retry-time (1-3 s) and watchtower-auto-retry-delay (2-4 s), 1-2 scripted towers, and 3-9 steps: revocations, a tower starting to fail in one of 7 ways (refused, reset, non-JSON 200, 502 page, wrong-shape JSON, undecodable signature, subscription error), one-off rejections, towers whose registrations buy only 1 or 2 slots (two histories in five), subscriptions running out (appointments refused with the subscription error until the client re-registers by itself), slow towers (every reply held back 0-1.1 s), recoveries, waits of 0.1-10 s (so that events land while the retrier is stopped, running, idle, waking), retrytower, SIGKILL + restart. Oracles: (1) after every tower recovered, within max-retry-time + auto-retry-delay + 3 manager polls + 3 s every tower is shown reachable with nothing pending and every answered revocation has a receipt (or is invalid because that tower rejected it); (2) per process log, 'Retrying tower X' never appears twice without 'Retry strategy succeeded|gave up for X' in between; (3) failed attempts of one retry loop number at most 2 + max-retry-time/0.25; no tower sees more than 12 failing requests in a second; a loop does not outlive max-retry-time by more than 1.5 intervals + slack; an idle retrier is not restarted before auto-retry-delay unless retrytower/restart asked; (4) a tower that keeps failing with data pending through a full cycle is shown unreachable at some sample and still lists the data; a tower whose renewal the client refused (non-extending receipt) may stay in subscription_error, but then retrytower must be accepted and deliver within the same bound; (5) retrytower is refused when the tower is shown reachable / temporary_unreachable / misbehaving before and after the call, accepted when unreachable before and after. Bounds on real time must fail again in a solo re-run (all other workers paused) to count. Non-trivial = a recovery, a full failing cycle or a manual retry happened; distinct = distinct class sets.".into();
    ev.assumptions = vec!["real time: bounds = configured delays + 3 polls of the retry manager + 3 s slack; a miss counts only if it reproduces with nothing else running".into(), "the client's info/warn log lines ('Retrying tower', 'Retry strategy succeeded/gave up', 'Retry error happened') are the observation point for retrier lifetimes".into(), "permanently failing subscriptions (non-extending renewals) and misbehaving towers are C14's subject and are not generated here".into()];
    ev.extra.insert("regression_cases_replayed".into(), json!(replayed));
    runner::conclude(ctx, "C13", stats, ev, started)
}

//! C16 — client and tower agree on every byte of the wire format.
//! Real client code (watchtower_plugin::net::http) <-> real warp router (teos::api::http) <-> recording mock gRPC tower.

use std::time::Instant;

use proptest::prelude::*;
use serde::{Deserialize, Serialize};
use serde_json::json;

use teos_common::appointment::{Appointment, Locator};
use teos_common::cryptography;
use teos_common::net::http::Endpoint;
use teos_common::net::NetAddr;
use teos_common::protos as msgs;
use teos_common::receipts::{AppointmentReceipt, RegistrationReceipt};
use teos_common::{TowerId, UserId};
use watchtower_plugin::net::http::{post_request, process_post_response, register, send_appointment, AddAppointmentError, ApiResponse, RequestError};

use crate::evidence::Evidence;
use crate::httpfront::{Front, MockTower, Received};
use crate::runner::{self, Campaign, CaseReport, Ctx, Violation};
use crate::world::{user_pk, user_sk};

#[derive(Debug, Clone, Serialize, Deserialize)]
pub enum ErrReply {
    InvalidArgument,
    NotFound,
    AlreadyExists,
    ResourceExhausted,
    Unauthenticated,
    Unavailable,
}

impl ErrReply {
    fn code(&self) -> tonic::Code {
        match self {
            ErrReply::InvalidArgument => tonic::Code::InvalidArgument,
            ErrReply::NotFound => tonic::Code::NotFound,
            ErrReply::AlreadyExists => tonic::Code::AlreadyExists,
            ErrReply::ResourceExhausted => tonic::Code::ResourceExhausted,
            ErrReply::Unauthenticated => tonic::Code::Unauthenticated,
            ErrReply::Unavailable => tonic::Code::Unavailable,
        }
    }
    fn api_code(&self) -> u8 {
        match self {
            ErrReply::InvalidArgument => 5,
            ErrReply::NotFound => 36,
            ErrReply::AlreadyExists => 35,
            ErrReply::ResourceExhausted => 65,
            ErrReply::Unauthenticated => 7,
            ErrReply::Unavailable => 32,
        }
    }
}

#[derive(Debug, Clone, Serialize, Deserialize)]
pub enum Case {
    Register { user: u8, slots: u32, start: u32, expiry: u32, sig: String, err: Option<(ErrReply, String)> },
    Add { locator: Vec<u8>, blob: Vec<u8>, delay: u32, user_sig: String, start_block: u32, slots: u32, expiry: u32, signer: u8, err: Option<(ErrReply, String)> },
    GetAppt { locator: Vec<u8>, sig: String, reply_blob: Vec<u8>, reply_delay: u32, status: i32, err: Option<(ErrReply, String)> },
    GetTracker { locator: Vec<u8>, sig: String, dispute: Vec<u8>, penalty: Vec<u8>, raw: Vec<u8>, err: Option<(ErrReply, String)> },
    SubInfo { sig: String, slots: u32, expiry: u32, locators: Vec<Vec<u8>>, err: Option<(ErrReply, String)> },
    /// pure: two appointments / receipts differing in one place must serialise (for signing) differently
    Layout { locator: Vec<u8>, blob: Vec<u8>, delay: u32, shift: u8, slots: u32, start: u32, expiry: u32, user_sig: String, which: u8 },
}

pub struct Worker {
    pub front: Front,
    pub mock: MockTower,
    pub addr: NetAddr,
}

pub struct C16 {
    pub workers: Vec<std::sync::Mutex<Worker>>,
    /// false: only the pure parts (serde round-trips, signed layouts), no network I/O
    pub net: bool,
}

fn v(sig: &str, msg: String) -> Violation {
    Violation { property: "C16".into(), signature: sig.into(), message: msg }
}

fn json_len<T: Serialize>(t: &T) -> usize {
    serde_json::to_string(t).map(|s| s.len()).unwrap_or(usize::MAX)
}

fn roundtrip<T: Serialize + for<'a> Deserialize<'a> + PartialEq + std::fmt::Debug>(t: &T, name: &str, out: &mut Vec<Violation>) {
    match serde_json::to_string(t) {
        Err(e) => out.push(v(&format!("serialise-fails:{name}"), format!("{t:?}: {e}"))),
        Ok(s) => match serde_json::from_str::<T>(&s) {
            Ok(back) if &back == t => {}
            Ok(back) => out.push(v(&format!("roundtrip-not-identity:{name}"), format!("{t:?} -> {s} -> {back:?}"))),
            Err(e) => out.push(v(&format!("own-output-does-not-parse:{name}"), format!("{t:?} -> {s}: {e}"))),
        },
    }
}

impl Campaign for C16 {
    type Case = Case;
    fn name(&self) -> &str {
        "C16"
    }

    fn strategy(&self) -> BoxedStrategy<Case> {
        let u32b = || prop_oneof![Just(0u32), Just(1), Just(u32::MAX), Just(u32::MAX - 1), Just(1 << 31), any::<u32>()];
        let sigs = || prop_oneof![3 => "[ybndrfg8ejkmcpqxot1uwisza345h769]{104}".prop_map(|s| s), 1 => "[ -~]{1,60}".prop_map(|s| s), 1 => "\\PC{1,30}".prop_map(|s| s)];
        // the error replies the tower can emit: its fixed messages (one of them carries a height)
        let err = || {
            proptest::option::weighted(
                0.25,
                prop_oneof![
                    Just((ErrReply::InvalidArgument, "Provided public key does not match expected format (33-byte compressed key)".to_string())),
                    Just((ErrReply::NotFound, "Appointment not found".to_string())),
                    Just((ErrReply::AlreadyExists, "The provided appointment has already been triggered".to_string())),
                    Just((ErrReply::ResourceExhausted, "Subscription maximum slots count reached".to_string())),
                    Just((ErrReply::Unauthenticated, "Invalid signature or user does not have enough slots available".to_string())),
                    Just((ErrReply::Unauthenticated, "User cannot be authenticated".to_string())),
                    Just((ErrReply::Unauthenticated, "User not found. Have you registered?".to_string())),
                    any::<u32>().prop_map(|n| (ErrReply::Unauthenticated, format!("Your subscription expired at {n}"))),
                    Just((ErrReply::Unavailable, "Service currently unavailable".to_string())),
                ],
            )
        };
        let bytes = |n: usize| proptest::collection::vec(any::<u8>(), 0..n);
        let fixed = |n: usize| proptest::collection::vec(any::<u8>(), n..=n);
        prop_oneof![
            2 => (0u8..4, u32b(), u32b(), u32b(), sigs(), err()).prop_map(|(user, slots, start, expiry, sig, err)| Case::Register { user, slots, start, expiry, sig, err }),
            4 => (fixed(16), bytes(880), u32b(), sigs(), u32b(), u32b(), u32b(), 0u8..2, err())
                .prop_map(|(locator, blob, delay, user_sig, start_block, slots, expiry, signer, err)| Case::Add { locator, blob, delay, user_sig, start_block, slots, expiry, signer, err }),
            2 => (fixed(16), sigs(), bytes(600), u32b(), 0i32..3, err()).prop_map(|(locator, sig, reply_blob, reply_delay, status, err)| Case::GetAppt { locator, sig, reply_blob, reply_delay, status, err }),
            2 => (fixed(16), sigs(), prop_oneof![3 => fixed(32), 1 => bytes(40)], prop_oneof![3 => fixed(32), 1 => bytes(40)], bytes(600), err()).prop_map(|(locator, sig, dispute, penalty, raw, err)| Case::GetTracker { locator, sig, dispute, penalty, raw, err }),
            2 => (sigs(), u32b(), u32b(), prop_oneof![9 => proptest::collection::vec(prop_oneof![6 => fixed(16), 1 => bytes(24)], 0..50), 1 => proptest::collection::vec(fixed(16), 200..600)], err()).prop_map(|(sig, slots, expiry, locators, err)| Case::SubInfo { sig, slots, expiry, locators, err }),
            2 => (fixed(16), bytes(300), u32b(), any::<u8>(), u32b(), u32b(), u32b(), "[ybndrfg8ejkmcpqxot1uwisza345h769]{0,104}".prop_map(|s| s), 0u8..6)
                .prop_map(|(locator, blob, delay, shift, slots, start, expiry, user_sig, which)| Case::Layout { locator, blob, delay, shift, slots, start, expiry, user_sig, which }),
        ]
        .boxed()
    }

    fn run_case(&self, case: &Case, w: usize) -> CaseReport {
        let mut rep = CaseReport::default();
        let worker = self.workers[w % self.workers.len()].lock().unwrap();
        let addr = worker.addr.clone();
        let rt = &worker.front.rt;
        let mut vs: Vec<Violation> = vec![];
        let set_err = |e: &Option<(ErrReply, String)>| e.as_ref().map(|(c, m)| (c.code(), m.clone()));
        worker.mock.0.lock().unwrap().received.clear();
        match case {
            Case::Register { user, slots, start, expiry, sig, err } => {
                rep.classes.push("register".into());
                let user_id = UserId(user_pk(*user));
                let tower_id = TowerId(user_pk(7));
                let reply = msgs::RegisterResponse { user_id: user_id.to_vec(), available_slots: *slots, subscription_start: *start, subscription_expiry: *expiry, subscription_signature: sig.clone() };
                roundtrip(&reply, "RegisterResponse", &mut vs);
                roundtrip(&msgs::RegisterRequest { user_id: user_id.to_vec() }, "RegisterRequest", &mut vs);
                worker.mock.0.lock().unwrap().register_reply = Some(match set_err(err) {
                    Some(e) => Err(e),
                    None => Ok(reply.clone()),
                });
                if !self.net {
                    rep.violations = vs;
                    rep.nontrivial = true;
                    rep.key = format!("{:?}", serde_json::to_string(case).map(|s| short_hash(&s)));
                    return rep;
                }
                let got = rt.block_on(register(tower_id, user_id, &addr, &None));
                match worker.mock.0.lock().unwrap().received.last() {
                    Some(Received::Register(r)) if r.user_id == user_id.to_vec() => {}
                    other => vs.push(v("request-altered:register", format!("the tower received {other:?}, the client sent user_id {user_id}"))),
                }
                match (err, got) {
                    (None, Ok(receipt)) => {
                        let exp = RegistrationReceipt::with_signature(user_id, *slots, *start, *expiry, sig.clone());
                        if receipt != exp {
                            vs.push(v("reply-altered:register", format!("tower sent {exp:?}, client parsed {receipt:?}")));
                        }
                    }
                    (Some(_), Err(RequestError::DeserializeError(_))) => {
                        // the register client function has no error-object branch: an API error surfaces as a deserialize error
                        rep.classes.push("register-error-reply".into());
                    }
                    (e, g) => vs.push(v("reply-misread:register", format!("tower replied {e:?}, client got {g:?}"))),
                }
            }
            Case::Add { locator, blob, delay, user_sig, start_block, slots, expiry, signer, err } => {
                rep.classes.push("add_appointment".into());
                let tower_sk = user_sk(7);
                let tower_id = TowerId(user_pk(7));
                let appt = Appointment::new(Locator::from_slice(locator).unwrap(), blob.clone(), *delay);
                let req = msgs::AddAppointmentRequest { appointment: Some(appt.clone().into()), signature: user_sig.clone() };
                roundtrip(&req, "AddAppointmentRequest", &mut vs);
                if json_len(&req) > 2048 {
                    rep.classes.push("over-the-request-size-limit(skipped)".into());
                    rep.violations = vs;
                    return rep;
                }
                // the tower signs (user signature, start block); signer 1 = somebody else (misbehaving tower)
                let mut receipt = AppointmentReceipt::new(user_sig.clone(), *start_block);
                receipt.sign(&if *signer == 0 { tower_sk } else { user_sk(6) });
                let reply = msgs::AddAppointmentResponse { locator: locator.clone(), start_block: *start_block, signature: receipt.signature().unwrap(), available_slots: *slots, subscription_expiry: *expiry };
                roundtrip(&reply, "AddAppointmentResponse", &mut vs);
                worker.mock.0.lock().unwrap().add_reply = Some(match set_err(err) {
                    Some(e) => Err(e),
                    None => Ok(reply.clone()),
                });
                if !self.net {
                    rep.violations = vs;
                    rep.nontrivial = true;
                    rep.key = format!("{:?}", serde_json::to_string(case).map(|s| short_hash(&s)));
                    return rep;
                }
                let got = rt.block_on(send_appointment(tower_id, &addr, &None, &appt, user_sig));
                match worker.mock.0.lock().unwrap().received.last() {
                    Some(Received::Add(r)) if *r == req => {}
                    other => vs.push(v("request-altered:add_appointment", format!("the tower received {other:?}, the client sent {req:?}"))),
                }
                match (err, got) {
                    (None, Ok((r, rc))) if *signer == 0 => {
                        if r != reply || rc != receipt {
                            vs.push(v("reply-altered:add_appointment", format!("tower sent {reply:?}, client parsed {r:?}")));
                        }
                    }
                    (None, Err(AddAppointmentError::SignatureError(proof))) if *signer != 0 => {
                        rep.classes.push("receipt-by-another-key".into());
                        if proof.recovered_id != TowerId(user_pk(6)) || proof.appointment_receipt != receipt || proof.locator != appt.locator {
                            vs.push(v("misbehaviour-proof-altered", format!("proof {proof:?} does not carry the receipt the tower sent")));
                        }
                    }
                    (Some((e, m)), Err(AddAppointmentError::ApiError(a))) => {
                        rep.classes.push(format!("error-reply:{e:?}"));
                        if a.error_code != e.api_code() || &a.error != m {
                            vs.push(v("error-reply-altered:add_appointment", format!("tower failed with {e:?} `{m}`, client parsed code {} `{}`", a.error_code, a.error)));
                        }
                    }
                    (e, g) => vs.push(v("reply-misread:add_appointment", format!("tower replied err={e:?} signer={signer}, client got {:?}", g.map(|x| x.0)))),
                }
            }
            Case::GetAppt { locator, sig, reply_blob, reply_delay, status, err } => {
                rep.classes.push("get_appointment(appointment)".into());
                let req = msgs::GetAppointmentRequest { locator: locator.clone(), signature: sig.clone() };
                roundtrip(&req, "GetAppointmentRequest", &mut vs);
                if json_len(&req) > 178 {
                    rep.classes.push("over-the-request-size-limit(skipped)".into());
                    rep.violations = vs;
                    return rep;
                }
                let reply = msgs::GetAppointmentResponse {
                    appointment_data: Some(msgs::AppointmentData { appointment_data: Some(msgs::appointment_data::AppointmentData::Appointment(msgs::Appointment { locator: locator.clone(), encrypted_blob: reply_blob.clone(), to_self_delay: *reply_delay })) }),
                    status: *status,
                };
                roundtrip(&reply, "GetAppointmentResponse", &mut vs);
                self.get(&worker, rt, &addr, req, reply, err, &mut vs, &mut rep);
            }
            Case::GetTracker { locator, sig, dispute, penalty, raw, err } => {
                rep.classes.push("get_appointment(tracker)".into());
                let req = msgs::GetAppointmentRequest { locator: locator.clone(), signature: sig.clone() };
                if json_len(&req) > 178 {
                    rep.classes.push("over-the-request-size-limit(skipped)".into());
                    rep.violations = vs;
                    return rep;
                }
                let reply = msgs::GetAppointmentResponse {
                    appointment_data: Some(msgs::AppointmentData { appointment_data: Some(msgs::appointment_data::AppointmentData::Tracker(msgs::Tracker { dispute_txid: dispute.clone(), penalty_txid: penalty.clone(), penalty_rawtx: raw.clone() })) }),
                    status: 2,
                };
                roundtrip(&reply, "GetAppointmentResponse", &mut vs);
                // byte-reversed ids on the wire
                let j: serde_json::Value = serde_json::to_value(&reply).unwrap();
                let mut rev = dispute.clone();
                rev.reverse();
                if j["appointment"]["dispute_txid"] != json!(hex::encode(&rev)) {
                    vs.push(v("txid-not-byte-reversed", format!("dispute_txid {} is serialised as {}", hex::encode(dispute), j["appointment"]["dispute_txid"])));
                }
                self.get(&worker, rt, &addr, req, reply, err, &mut vs, &mut rep);
            }
            Case::SubInfo { sig, slots, expiry, locators, err } => {
                rep.classes.push("get_subscription_info".into());
                let req = msgs::GetSubscriptionInfoRequest { signature: sig.clone() };
                roundtrip(&req, "GetSubscriptionInfoRequest", &mut vs);
                if json_len(&req) > 127 {
                    rep.classes.push("over-the-request-size-limit(skipped)".into());
                    rep.violations = vs;
                    return rep;
                }
                let reply = msgs::GetSubscriptionInfoResponse { available_slots: *slots, subscription_expiry: *expiry, locators: locators.clone() };
                roundtrip(&reply, "GetSubscriptionInfoResponse", &mut vs);
                worker.mock.0.lock().unwrap().subinfo_reply = Some(match set_err(err) {
                    Some(e) => Err(e),
                    None => Ok(reply.clone()),
                });
                if !self.net {
                    rep.violations = vs;
                    rep.nontrivial = true;
                    rep.key = format!("{:?}", serde_json::to_string(case).map(|s| short_hash(&s)));
                    return rep;
                }
                let got: Result<ApiResponse<msgs::GetSubscriptionInfoResponse>, RequestError> = rt.block_on(async { process_post_response(post_request(&addr, Endpoint::GetSubscriptionInfo, &req, &None).await).await });
                match worker.mock.0.lock().unwrap().received.last() {
                    Some(Received::SubInfo(r)) if *r == req => {}
                    other => vs.push(v("request-altered:get_subscription_info", format!("the tower received {other:?}, the client sent {req:?}"))),
                }
                match (err, got) {
                    (None, Ok(ApiResponse::Response(r))) => {
                        if r != reply {
                            vs.push(v("reply-altered:get_subscription_info", format!("tower sent {reply:?}, client parsed {r:?}")));
                        }
                    }
                    (Some((e, m)), Ok(ApiResponse::Error(a))) => {
                        if a.error_code != e.api_code() || &a.error != m {
                            vs.push(v("error-reply-altered:get_subscription_info", format!("tower failed with {e:?} `{m}`, client parsed code {} `{}`", a.error_code, a.error)));
                        }
                    }
                    (e, g) => vs.push(v("reply-misread:get_subscription_info", format!("tower replied err={e:?}, client got {g:?}"))),
                }
            }
            Case::Layout { locator, blob, delay, shift, slots, start, expiry, user_sig, which } => {
                rep.classes.push(format!("signed-layout:{which}"));
                let l = Locator::from_slice(locator).unwrap();
                let a = Appointment::new(l, blob.clone(), *delay);
                // a parser written from the documented layout must recover the fields
                let ser = a.to_vec();
                if ser.len() < 20 || ser[..16] != locator[..] || ser[16..ser.len() - 4] != blob[..] || ser[ser.len() - 4..] != delay.to_be_bytes() {
                    vs.push(v("appointment-layout", format!("Appointment::to_vec of {a:?} is not locator || blob || delay(be)")));
                }
                // neighbours: move one byte between blob and delay, change one field
                let b = match which % 3 {
                    0 => {
                        let mut nb = blob.clone();
                        nb.push(delay.to_be_bytes()[0]);
                        let d = u32::from_be_bytes([delay.to_be_bytes()[1], delay.to_be_bytes()[2], delay.to_be_bytes()[3], *shift]);
                        Appointment::new(l, nb, d)
                    }
                    1 => Appointment::new(l, blob.clone(), delay.wrapping_add(1 + *shift as u32)),
                    _ => {
                        let mut nb = blob.clone();
                        nb.push(*shift);
                        Appointment::new(l, nb, *delay)
                    }
                };
                if a != b && a.to_vec() == b.to_vec() {
                    // locator||blob||delay has no length prefix: a shifted blob/delay boundary gives the same bytes
                    vs.push(v("appointment-signed-bytes-ambiguous", format!("{a:?} and {b:?} serialise to the same signed bytes")));
                }
                let uid = UserId(user_pk(1));
                let r1 = RegistrationReceipt::new(uid, *slots, *start, *expiry);
                let r2 = match which % 3 {
                    0 => RegistrationReceipt::new(uid, slots.wrapping_add(1), *start, *expiry),
                    1 => RegistrationReceipt::new(uid, *slots, start.wrapping_add(1 + *shift as u32), *expiry),
                    _ => RegistrationReceipt::new(UserId(user_pk(2)), *slots, *start, *expiry),
                };
                if r1.to_vec() == r2.to_vec() {
                    vs.push(v("registration-receipt-signed-bytes-ambiguous", format!("{r1:?} and {r2:?} serialise to the same signed bytes")));
                }
                let e = r1.to_vec();
                if e.len() != 45 || e[..33] != uid.to_vec()[..] || e[33..37] != slots.to_be_bytes() || e[37..41] != start.to_be_bytes() || e[41..45] != expiry.to_be_bytes() {
                    vs.push(v("registration-receipt-layout", format!("RegistrationReceipt::to_vec of {r1:?} is not user_id || slots || start || expiry")));
                }
                let a1 = AppointmentReceipt::new(user_sig.clone(), *start);
                let mut s2 = user_sig.clone();
                s2.push('y');
                let a2 = if which % 2 == 0 { AppointmentReceipt::new(s2, *start) } else { AppointmentReceipt::new(user_sig.clone(), start.wrapping_add(1 + *shift as u32)) };
                if a1.to_vec() == a2.to_vec() {
                    vs.push(v("appointment-receipt-signed-bytes-ambiguous", format!("{a1:?} and {a2:?} serialise to the same signed bytes")));
                }
                let e = a1.to_vec();
                if e[..e.len() - 4] != *user_sig.as_bytes() || e[e.len() - 4..] != start.to_be_bytes() {
                    vs.push(v("appointment-receipt-layout", format!("AppointmentReceipt::to_vec of {a1:?} is not user_signature || start_block")));
                }
            }
        }
        rep.violations = vs;
        rep.nontrivial = true;
        rep.key = format!("{:?}", serde_json::to_string(case).map(|s| crate::props::c16::short_hash(&s)));
        rep.sample = Some(serde_json::to_value(case).unwrap());
        rep
    }
}

pub fn short_hash(s: &str) -> u64 {
    use std::hash::{Hash, Hasher};
    let mut h = std::collections::hash_map::DefaultHasher::new();
    s.hash(&mut h);
    h.finish()
}

impl C16 {
    #[allow(clippy::too_many_arguments)]
    fn get(&self, worker: &Worker, rt: &tokio::runtime::Runtime, addr: &NetAddr, req: msgs::GetAppointmentRequest, reply: msgs::GetAppointmentResponse, err: &Option<(ErrReply, String)>, vs: &mut Vec<Violation>, rep: &mut CaseReport) {
        worker.mock.0.lock().unwrap().get_reply = Some(match err.as_ref().map(|(c, m)| (c.code(), m.clone())) {
            Some(e) => Err(e),
            None => Ok(reply.clone()),
        });
        if !self.net {
            return;
        }
        let got: Result<ApiResponse<msgs::GetAppointmentResponse>, RequestError> = rt.block_on(async { process_post_response(post_request(addr, Endpoint::GetAppointment, &req, &None).await).await });
        match worker.mock.0.lock().unwrap().received.last() {
            Some(Received::Get(r)) if *r == req => {}
            other => vs.push(v("request-altered:get_appointment", format!("the tower received {other:?}, the client sent {req:?}"))),
        }
        match (err, got) {
            (None, Ok(ApiResponse::Response(r))) => {
                if r != reply {
                    vs.push(v("reply-altered:get_appointment", format!("tower sent {reply:?}, client parsed {r:?}")));
                }
            }
            (Some((e, m)), Ok(ApiResponse::Error(a))) => {
                rep.classes.push(format!("error-reply:{e:?}"));
                if a.error_code != e.api_code() || &a.error != m {
                    vs.push(v("error-reply-altered:get_appointment", format!("tower failed with {e:?} `{m}`, client parsed code {} `{}`", a.error_code, a.error)));
                }
            }
            (e, g) => vs.push(v("reply-misread:get_appointment", format!("tower replied err={e:?}, client got {g:?}"))),
        }
    }
}

pub fn make(workers: usize, net: bool) -> C16 {
    let ws = (0..workers)
        .map(|_| {
            let mock = MockTower::default();
            let front = Front::start(mock.clone());
            let addr = NetAddr::new(format!("http://{}", front.http));
            std::sync::Mutex::new(Worker { front, mock, addr })
        })
        .collect();
    C16 { workers: ws, net }
}

pub fn run(ctx: &Ctx) -> i32 {
    let started = Instant::now();
    if let Some(p) = &ctx.replay {
        if crate::fuzzdrive::is_artifact(p) {
            return crate::fuzzdrive::replay_file("C16", "wire", p);
        }
        return runner::replay(&make(1, true), p);
    }
    // through the wire: the client builds a TLS-capable reqwest client per request (OpenSSL trust store load, a global
    // lock), which caps this at about 20 cases/s however many workers there are
    let mut net_ctx = ctx.clone();
    net_ctx.workers = ctx.workers.min(4);
    let camp = make(net_ctx.workers, true);
    let mut stats = runner::run_campaign(&camp, &net_ctx, if ctx.thorough() { 3_000 } else { 300 });
    let net_cases = stats.evaluations;
    if stats.failures.is_empty() {
        // the pure parts (round-trips, layouts) at volume
        let pure = make(1, false);
        let mut pctx = ctx.clone();
        pctx.seed = ctx.seed.wrapping_add(77);
        let one = C16 { workers: (0..ctx.workers).map(|_| std::sync::Mutex::new(Worker { front: Front::start(MockTower::default()), mock: MockTower::default(), addr: NetAddr::new("http://127.0.0.1:1".into()) })).collect(), net: false };
        drop(pure);
        let s2 = runner::run_campaign(&one, &pctx, if ctx.thorough() { 40_000 } else { 3_000 });
        stats.merge(s2);
    }
    let mut ev = Evidence::default();
    ev.level = "exploration".into();
    ev.rule = "generated values of every message type (u32 boundaries, empty and long blobs, arbitrary printable / unicode / empty signature strings, 0-49 (one case in ten: 200-599) locators, every mapped gRPC error code) are sent with the client's own functions (register, send_appointment, post_request + process_post_response) through the real warp router to a recording mock tower, and the scripted reply travels back the same way: what the mock received must equal what was sent, what the client parsed must equal what the mock replied (error objects: code and message); serde round-trip identity for every message type; byte-reversed txids on the wire; documented signed layouts parsed back and neighbouring field tuples must serialise differently. Every case is non-trivial; distinct = distinct cases.".into();
    ev.extra.insert("cases_through_the_wire".into(), json!(net_cases));
    ev.assumptions = vec![
        "requests are kept within the tower's body limits (larger ones get 413 and are counted, not judged)".into(),
        "acknowledgement signatures are well-formed (malformed ones are C14's subject)".into(),
    ];
    let mut stats = stats;
    let inconclusive = crate::fuzzdrive::attach(ctx, "C16", "wire", &mut stats, &mut ev, 8, 1000000, 1024);
    let code = runner::conclude(ctx, "C16", stats, ev, started);
    if code == 0 && inconclusive {
        2
    } else {
        code
    }
}

//! C08 add-on — a request served *inside* a reorg: between the disconnections and the connections of one poll the
//! tower stands lower than before. One-at-a-time histories never put a request there (after a poll the tower is never
//! lower than it was), so this small exhaustive family does: for every reorg depth 1-3, every number of extra blocks
//! 1-2 and every replacement block k, an add_appointment (a new one, or an update of one stored on top of the reorged
//! blocks) is made right before the k-th replacement block is fetched.
//! Oracle: the receipt's start_block is the tower's height at that instant (fork height + k - 1), the receipt verifies
//! with the client's own verifier, the stored row carries the same start_block, and the appointment reads back.

use std::sync::{Arc, Mutex};

use serde_json::{json, Value};

use crate::ops::*;
use crate::plain::{api_call, setup_op};
use crate::runner::{CaseReport, Stats, Violation};
use crate::simnode::{txs, Node};
use crate::towerbox::{Tower, TowerCfg};
use crate::world::{scratch_dir, SALT, START_HEIGHT};

fn v(sig: &str, msg: String) -> Violation {
    Violation { property: "C08".into(), signature: sig.into(), message: msg }
}

pub fn run_one(depth: u8, extra: u8, k: u8, registered_late: bool) -> CaseReport {
    run_one_with(depth, extra, k, registered_late, false)
}

/// `update`: the appointment was stored (with a longer blob) on top of the blocks that are reorged away; the request made
/// inside the reorg is an update of it, and what reads back afterwards must be the update.
pub fn run_one_with(depth: u8, extra: u8, k: u8, registered_late: bool, update: bool) -> CaseReport {
    let mut rep = CaseReport::default();
    let node = Node::new(START_HEIGHT, false);
    {
        let mut st = node.lock();
        for c in 0..8u32 {
            st.funded.insert(txs::funding(SALT, c));
        }
    }
    let dir = scratch_dir(&format!("inreorg-{depth}-{extra}-{k}-{registered_late}-{:?}", std::thread::current().id()).replace(['(', ')'], ""));
    let _ = std::fs::remove_dir_all(&dir);
    let mut tower = match Tower::boot(node.clone(), &dir, TowerCfg { slots: 10, duration: 1000, grace: 6 }) {
        Ok(t) => t,
        Err(e) => {
            rep.violations.push(v("boot-failed", format!("{e:?}")));
            return rep;
        }
    };
    let add = Op::Add { u: 0, chan: 1, dvar: 0, blob: BlobKind::Valid { len: 0, var: 0 }, delay: 42, sig: SigKind::Good };
    // the user registers either before the blocks that will be reorged away or on top of them
    let mut setup: Vec<Op> = vec![];
    if !registered_late {
        setup.push(Op::Register { u: 0 });
    }
    setup.push(Op::MineMany { n: depth, take: Take::All });
    setup.push(Op::Poll);
    if registered_late {
        setup.push(Op::Register { u: 0 });
    }
    if update {
        if !registered_late {
            // (needs a registered user: only the late flavour stores the first version on top of the reorged blocks)
            return rep;
        }
        setup.push(Op::Add { u: 0, chan: 1, dvar: 0, blob: BlobKind::Valid { len: 3, var: 0 }, delay: 42, sig: SigKind::Good });
    }
    for op in &setup {
        if let Err(e) = setup_op(&node, &mut tower, op) {
            rep.violations.push(v("setup-failed", format!("{op:?}: {e}")));
            return rep;
        }
    }
    let tip_before = node.lock().tip_height();
    let fork = tip_before - depth as u32;
    // the reorg happens at the node; the request is made from inside the poll that follows
    let n_new = depth as usize + extra as usize;
    node.lock().reorg(depth as usize, &vec![vec![]; n_new], false);
    let reply: Arc<Mutex<Option<String>>> = Arc::new(Mutex::new(None));
    {
        let api = tower.api.clone();
        let reply2 = reply.clone();
        let add2 = add.clone();
        *node.get_block_hook.lock().unwrap() = Some((
            k as usize,
            Box::new(move || {
                // on a thread of its own: the poll's thread is inside the chain monitor's runtime
                let api = api.clone();
                let add2 = add2.clone();
                let r = std::thread::spawn(move || api_call(&api, &add2)).join().unwrap_or_else(|_| "handler panicked".into());
                *reply2.lock().unwrap() = Some(r);
            }),
        ));
    }
    if let Err(p) = tower.poll() {
        rep.violations.push(Violation { property: "C11".into(), signature: crate::panics::signature(&p), message: format!("chain processing aborted: {p}") });
        return rep;
    }
    let expected = fork + k as u32 - 1;
    let what = format!("reorg of depth {depth} (+{extra}), request made right before replacement block #{k} is fetched (the tower stands at {expected}; it stood at {tip_before} before the poll; user registered at {})", if registered_late { tip_before } else { fork });
    let r = reply.lock().unwrap().clone();
    match r {
        None => rep.violations.push(v("harness:hook-not-reached", format!("{what}: the hook did not fire"))),
        Some(r) => {
            // "accepted(start=S,slots=..,expiry=..)"
            let start: Option<u32> = r.strip_prefix("accepted(start=").and_then(|x| x.split(',').next()).and_then(|x| x.parse().ok());
            match start {
                None => rep.violations.push(v("valid-request-inside-a-reorg-refused", format!("{what}: answered {r}"))),
                Some(s) => {
                    if s != expected {
                        rep.violations.push(v("receipt-start-block-is-not-the-tower-height", format!("{what}: the receipt says start_block {s}")));
                    }
                    let snap = tower.snapshot();
                    let rows: Vec<u32> = snap.appointments.values().map(|a| a.start_block).collect();
                    if rows != vec![s] {
                        rep.violations.push(v("stored-start-block-differs-from-receipt", format!("{what}: receipt {s}, stored rows {rows:?}")));
                    }
                    let back = api_call(&tower.api, &Op::Get { u: 0, chan: 1, dvar: 0, sig: SigKind::Good });
                    if update {
                        let want = format!("blob_len={},", crate::world::blob_of(BlobKind::Valid { len: 0, var: 0 }, &txs::dispute(SALT, 1, 0)).len());
                        if !back.contains(&want) {
                            rep.violations.push(v("update-accepted-inside-a-reorg-is-not-what-reads-back", format!("{what}: the update was acknowledged, get_appointment answers {back}")));
                        }
                    }
                    if !back.starts_with("watched(") {
                        rep.violations.push(v("accepted-inside-a-reorg-does-not-read-back", format!("{what}: get_appointment answers {back}")));
                    }
                }
            }
        }
    }
    rep.nontrivial = true;
    rep.classes = vec![format!("request-inside-reorg:depth{depth}"), if expected < tip_before { "tower-lower-than-before-the-poll".into() } else { "tower-not-lower".into() }];
    rep.key = format!("{depth}/{extra}/{k}/{registered_late}/{update}");
    rep.sample = Some(json!({"depth": depth, "extra": extra, "k": k, "registered_on_top_of_the_reorged_blocks": registered_late}));
    drop(tower);
    let _ = std::fs::remove_dir_all(&dir);
    rep
}

/// A *registration* made inside a reorg: a new user (or, `renewal`, the user registered before the reorged blocks) registers
/// right before the k-th replacement block is fetched. Oracle: a new subscription starts at the tower's height at that
/// instant (fork + k - 1) and expires `duration` later; a renewal keeps its start and moves the expiry by one duration and
/// the slots by one grant; the persisted row equals the receipt; the subscription is usable after the poll.
pub fn run_register(depth: u8, extra: u8, k: u8, renewal: bool, late: bool) -> CaseReport {
    const SLOTS: u32 = 10;
    const DURATION: u32 = 1000;
    let mut rep = CaseReport::default();
    let node = Node::new(START_HEIGHT, false);
    {
        let mut st = node.lock();
        for c in 0..8u32 {
            st.funded.insert(txs::funding(SALT, c));
        }
    }
    let dir = scratch_dir(&format!("inreorg-reg-{depth}-{extra}-{k}-{renewal}-{late}-{:?}", std::thread::current().id()).replace(['(', ')'], ""));
    let _ = std::fs::remove_dir_all(&dir);
    let mut tower = match Tower::boot(node.clone(), &dir, TowerCfg { slots: SLOTS, duration: DURATION, grace: 6 }) {
        Ok(t) => t,
        Err(e) => {
            rep.violations.push(v("boot-failed", format!("{e:?}")));
            return rep;
        }
    };
    let who: u8 = if renewal { 0 } else { 1 };
    // the other user registers either below the blocks that will be reorged away or on top of them
    let setup = if late { vec![Op::MineMany { n: depth, take: Take::All }, Op::Poll, Op::Register { u: 0 }] } else { vec![Op::Register { u: 0 }, Op::MineMany { n: depth, take: Take::All }, Op::Poll] };
    for op in &setup {
        if let Err(e) = setup_op(&node, &mut tower, op) {
            rep.violations.push(v("setup-failed", format!("{op:?}: {e}")));
            return rep;
        }
    }
    let tip_before = node.lock().tip_height();
    let fork = tip_before - depth as u32;
    let first = tower.snapshot().users.get(&crate::world::user_pk(0).serialize().to_vec()).cloned();
    let n_new = depth as usize + extra as usize;
    node.lock().reorg(depth as usize, &vec![vec![]; n_new], false);
    let reply: Arc<Mutex<Option<String>>> = Arc::new(Mutex::new(None));
    {
        let api = tower.api.clone();
        let reply2 = reply.clone();
        *node.get_block_hook.lock().unwrap() = Some((
            k as usize,
            Box::new(move || {
                let api = api.clone();
                let r = std::thread::spawn(move || api_call(&api, &Op::Register { u: who })).join().unwrap_or_else(|_| "handler panicked".into());
                *reply2.lock().unwrap() = Some(r);
            }),
        ));
    }
    if let Err(p) = tower.poll() {
        rep.violations.push(Violation { property: "C11".into(), signature: crate::panics::signature(&p), message: format!("chain processing aborted: {p}") });
        return rep;
    }
    let height = fork + k as u32 - 1;
    let what = format!("reorg of depth {depth} (+{extra}), {} made right before replacement block #{k} is fetched (the tower stands at {height}; it stood at {tip_before} before the poll; user 0 registered at {})", if renewal { "renewal" } else { "first registration" }, if late { tip_before } else { fork });
    let want = if renewal {
        match first {
            Some((slots, start, expiry)) => (slots + SLOTS, start, expiry + DURATION),
            None => {
                rep.violations.push(v("harness:no-first-registration", what));
                return rep;
            }
        }
    } else {
        (SLOTS, height, height + DURATION)
    };
    let r = reply.lock().unwrap().clone();
    match r {
        None => rep.violations.push(v("harness:hook-not-reached", format!("{what}: the hook did not fire"))),
        Some(r) => {
            let expected = format!("registered(slots={},start={},expiry={})", want.0, want.1, want.2);
            if !r.starts_with("registered(") {
                rep.violations.push(v("registration-inside-a-reorg-refused", format!("{what}: answered {r}")));
            } else {
                if r != expected {
                    rep.violations.push(Violation { property: "C09".into(), signature: "registration-inside-a-reorg-not-counted-from-the-tower-height".into(), message: format!("{what}: answered {r}, expected {expected}") });
                }
                let row = tower.snapshot().users.get(&crate::world::user_pk(who).serialize().to_vec()).cloned();
                let row_s = row.map(|(s, a, e)| format!("registered(slots={s},start={a},expiry={e})"));
                if row_s.as_deref() != Some(r.as_str()) {
                    rep.violations.push(v("stored-subscription-differs-from-registration-receipt", format!("{what}: receipt {r}, stored {row_s:?}")));
                }
                let add = api_call(&tower.api, &Op::Add { u: who, chan: 2, dvar: 0, blob: BlobKind::Valid { len: 0, var: 0 }, delay: 42, sig: SigKind::Good });
                if !add.starts_with("accepted(") {
                    rep.violations.push(v("subscription-made-inside-a-reorg-is-not-usable", format!("{what}: add_appointment afterwards answers {add}")));
                }
            }
        }
    }
    rep.nontrivial = true;
    rep.classes = vec![format!("registration-inside-reorg:depth{depth}"), if height < tip_before { "tower-lower-than-before-the-poll".into() } else { "tower-not-lower".into() }];
    rep.key = format!("reg/{depth}/{extra}/{k}/{renewal}/{late}");
    rep.sample = Some(json!({"registration_inside_reorg": {"depth": depth, "extra": extra, "k": k, "renewal": renewal, "other_user_registered_on_top_of_the_reorged_blocks": late}}));
    drop(tower);
    let _ = std::fs::remove_dir_all(&dir);
    rep
}

/// The whole family; failures are pushed into `stats` with a replayable description.
pub fn run_all(stats: &mut Stats) -> u64 {
    let mut n = 0;
    for depth in 1..=3u8 {
        for extra in 1..=2u8 {
            for k in 1..=(depth + extra) {
                for late in [false, true] {
                  for update in [false, true] {
                    if update && !late {
                        continue;
                    }
                    let rep = run_one_with(depth, extra, k, late, update);
                    n += 1;
                    stats.absorb(&rep);
                    if let Some(viol) = rep.violations.first() {
                        if !stats.failures.iter().any(|(w, _)| w.signature == viol.signature) {
                            stats.failures.push((viol.clone(), json!({"inside_reorg": {"depth": depth, "extra": extra, "k": k, "late": late, "update": update}})));
                        }
                    }
                  }
                }
                for (renewal, late) in [(false, false), (false, true), (true, false), (true, true)] {
                    let rep = run_register(depth, extra, k, renewal, late);
                    n += 1;
                    stats.absorb(&rep);
                    if let Some(viol) = rep.violations.first() {
                        if !stats.failures.iter().any(|(w, _)| w.signature == viol.signature) {
                            stats.failures.push((viol.clone(), json!({"inside_reorg": {"depth": depth, "extra": extra, "k": k, "register": true, "renewal": renewal, "late": late}})));
                        }
                    }
                }
            }
        }
    }
    n
}

pub fn replay(case: &Value) -> Option<CaseReport> {
    let c = case.get("inside_reorg")?;
    if c["register"].as_bool().unwrap_or(false) {
        return Some(run_register(c["depth"].as_u64()? as u8, c["extra"].as_u64()? as u8, c["k"].as_u64()? as u8, c["renewal"].as_bool()?, c["late"].as_bool().unwrap_or(false)));
    }
    Some(run_one_with(c["depth"].as_u64()? as u8, c["extra"].as_u64()? as u8, c["k"].as_u64()? as u8, c["late"].as_bool()?, c["update"].as_bool().unwrap_or(false)))
}

//! The history-driven checks that share towerbox + simnode + model: C01 C02 C04 C06 C07 C08 C09 (+C11 histories).
use std::time::Instant;

use proptest::prelude::*;
use serde_json::json;

use crate::evidence::Evidence;
use crate::model::ModelStats;
use crate::ops::{history, History, Profile};
use crate::runner::{self, Campaign, CaseReport, Ctx};
use crate::world::run_history;

pub struct TowerCampaign {
    pub id: &'static str,
    pub profile: Profile,
    pub max_ops: usize,
    pub nontrivial: fn(&ModelStats, &CaseReport) -> bool,
}

impl Campaign for TowerCampaign {
    type Case = History;
    fn name(&self) -> &str {
        self.id
    }
    fn strategy(&self) -> BoxedStrategy<History> {
        history(self.profile, self.max_ops)
    }
    fn run_case(&self, case: &History, w: usize) -> CaseReport {
        let (mut rep, stats) = run_history(case, &format!("{}-{w}", self.id), true);
        rep.nontrivial = (self.nontrivial)(&stats, &rep);
        rep
    }
}

pub fn campaign(id: &str) -> Option<(TowerCampaign, u32, u32, &'static str)> {
    // (campaign, quick cases per worker, thorough cases per worker, rule text)
    Some(match id {
        "C01" => (
            TowerCampaign { id: "C01", profile: Profile::Breach, max_ops: 40, nontrivial: |s, _| s.obligations > 0 },
            1500,
            12000,
            "histories from profile `breach` (1-4 users, 1-5 channels, <=40 ops: register/add/get/broadcast/mine/reorg/poll/policy/restart) run on the real tower and on the reference model; non-trivial = at least one obligation (a held appointment whose locator matched a transaction in a processed block or in the six-block window at acceptance); distinct = distinct (class vector, obligation bucket, rpc bucket)",
        ),
        "C02" => (
            TowerCampaign { id: "C02", profile: Profile::Breach, max_ops: 40, nontrivial: |_, r| r.counters.iter().any(|(k, v)| k == "rpcs_examined" && *v > 0) },
            1500,
            12000,
            "same histories as C01 (other seed stream); every sendrawtransaction/getrawtransaction the tower issues is matched against the model's expectations, leftovers must be justified by a held, triggered, decryptable appointment of a present user or a reorged tracker; non-trivial = at least one RPC issued by the tower",
        ),
        "C04" => (
            TowerCampaign { id: "C04", profile: Profile::Chain, max_ops: 60, nontrivial: |s, _| s.completions > 0 || s.reorg_resends > 0 || s.rebroadcasts > 0 || s.reorged_conf > 0 },
            500,
            5000,
            "histories from profile `chain` (few users, many mine/reorg/poll, growth up to 120 blocks per op, reorgs up to depth 12); tracker state machine of the model vs trackers table and RPC log after every poll; non-trivial = a completion, a reorg of a confirming block, or a stale rebroadcast happened",
        ),
        "C06" => (
            TowerCampaign { id: "C06", profile: Profile::Auth, max_ops: 40, nontrivial: |s, _| s.auth_rejections > 0 || s.multi_user_locator > 0 },
            1500,
            12000,
            "histories from profile `auth`: half of all requests carry a signature that is valid for another message / by another user / by an unregistered key / truncated / extended / one symbol changed / not zbase32 / empty / upper-cased; oracle = independent public-key recovery + membership; refused requests must leave the database byte-identical; non-trivial = at least one refused authentication or two users triggered on one locator",
        ),
        "C07" => (
            TowerCampaign { id: "C07", profile: Profile::Slots, max_ops: 45, nontrivial: |s, _| s.updates_cross_slot > 0 || s.invalid_drops + s.rejected_drops + s.completions > 0 },
            1200,
            10000,
            "histories from profile `slots` (blob lengths on both sides of every 2048 boundary, small slot budgets); after every op: wire reply = private get_user (memory) = users table (disk) = model balance; conservation granted = available + held + forfeited is kept by the model; non-trivial = an update across a slot boundary, a drop (invalid/rejected) or a refund",
        ),
        "C08" => (
            TowerCampaign { id: "C08", profile: Profile::Receipts, max_ops: 40, nontrivial: |s, _| s.renewals > 0 || s.updates > 0 || s.trig_accept > 0 },
            1500,
            12000,
            "histories from profile `breach`; every register/add reply is verified with the client's own receipt verifiers, start_block against the model height, slots/expiry against the users table, and every held appointment is read back byte-for-byte after every operation; non-trivial = a renewal, an update, or an acceptance-time trigger",
        ),
        "C09" => (
            TowerCampaign { id: "C09", profile: Profile::Expiry, max_ops: 45, nontrivial: |s, _| s.expired_rejections > 0 || s.purges > 0 || s.renewals > 0 },
            1500,
            12000,
            "histories from profile `expiry`: (slots,duration,grace) drawn from {0,1,2,3,5,10,50}^3, polls of 1-5 blocks, reorgs up to depth 6 across expiry and purge heights; model = height comparisons of the statement; non-trivial = a request refused for expiry, a purge, or a renewal",
        ),
        "C11H" => (
            TowerCampaign { id: "C11", profile: Profile::Lifecycle, max_ops: 50, nontrivial: |s, _| s.already_triggered + s.retriggers + s.updates > 0 },
            1200,
            10000,
            "lifecycle histories: resubmission of appointments in every lifecycle state with every node verdict; verdict = a panic (hook) in a handler or in chain processing",
        ),
        _ => return None,
    })
}

pub fn run(ctx: &Ctx) -> i32 {
    let started = Instant::now();
    let (c, quick, thorough, rule) = campaign(&ctx.property).expect("tower campaign");
    if let Some(p) = &ctx.replay {
        crate::panics::VERBOSE.store(true, std::sync::atomic::Ordering::SeqCst);
        // (C08's add-on family has its own small case format)
        if let Some(rep) = std::fs::read_to_string(p).ok().and_then(|t| serde_json::from_str::<serde_json::Value>(&t).ok()).and_then(|b| crate::props::inreorg::replay(&b["case"])) {
            return match rep.violations.first() {
                None => {
                    println!("replay: no violation");
                    0
                }
                Some(v) => {
                    println!("VIOLATION property={} replay={p}\n  signature: {}\n  {}", v.property, v.signature, v.message);
                    1
                }
            };
        }
        return runner::replay(&c, p);
    }
    // (C11 comes here after its scheduler part, which had its own observer installed)
    crate::relock::install();
    let n = if ctx.thorough() { thorough } else { quick };
    // replay tier: saved minimal histories of earlier findings and of earlier oracle mistakes
    let mut regress = runner::Stats::default();
    let findings = crate::known::load();
    if let Ok(rd) = std::fs::read_dir("/verif/regress") {
        let mut files: Vec<_> = rd.filter_map(|e| e.ok()).map(|e| e.path()).filter(|p| p.extension().map_or(false, |x| x == "json")).collect();
        files.sort();
        for f in files {
            let body: serde_json::Value = match std::fs::read_to_string(&f).ok().and_then(|s| serde_json::from_str(&s).ok()) {
                Some(b) => b,
                None => continue,
            };
            if body["engine"].as_str().unwrap_or("tower") != "tower" {
                continue;
            }
            let case: History = match serde_json::from_value(body["case"].clone()) {
                Ok(c) => c,
                Err(_) => continue,
            };
            // (a history whose outcome depends on the iteration order of one of the tower's hash sets is replayed several times:
            // every run boots a new tower with new hash seeds)
            for _ in 0..body["repeat"].as_u64().unwrap_or(1).max(1) {
                let rep = c.run_case(&case, 0);
                let (unknown, kn) = runner::triage(&findings, &rep);
                regress.absorb(&rep);
                for k in kn {
                    *regress.known_hits.entry((k.property, k.signature)).or_insert(0) += 1;
                }
                if let Some(v) = unknown.first() {
                    regress.failures.push((v.clone(), body["case"].clone()));
                    break;
                }
            }
        }
    }
    let mut inside_reorg = 0;
    if c.id == "C08" && regress.failures.is_empty() {
        inside_reorg = crate::props::inreorg::run_all(&mut regress);
    }
    let replayed = regress.evaluations - inside_reorg;
    let mut stats = if regress.failures.is_empty() { runner::run_campaign(&c, ctx, n) } else { runner::Stats::default() };
    stats.merge(regress);
    let mut ev = Evidence::default();
    ev.level = "exploration".into();
    ev.rule = rule.into();
    ev.assumptions = vec![
        "simnode follows bitcoind's documented sendrawtransaction/getrawtransaction verdicts; it is a model of bitcoind, not bitcoind".into(),
        "the tower is booted by a line-for-line copy of teos/src/main.rs's bootstrap (edits to main.rs itself are not seen)".into(),
        "operations are executed one at a time (interleavings are C10/C11's subject)".into(),
        "outcomes after an 'already in chain' (-27) verdict are not specified by the properties: the model adopts what the tower did".into(),
    ];
    ev.extra.insert("cases_per_worker".into(), json!(n));
    ev.extra.insert("regression_histories_replayed".into(), json!(replayed));
    if c.id == "C08" {
        ev.extra.insert("requests_inside_a_reorg".into(), json!(inside_reorg));
        ev.rule = format!("{} Add-on, exhaustive small family ({inside_reorg} cases): for every reorg depth 1-3, 1-2 extra blocks, every replacement block k and a user registered below / on top of the reorged blocks, an add_appointment (new, or an update of one stored on top of the reorged blocks, which must then be what reads back) is made from inside the poll right before block k is fetched (the tower stands at fork height + k - 1, lower than before the poll for small k): receipt start_block == that height, stored row == receipt, reads back. Likewise a registration (a new user, or a renewal; the other user registered below / on top of the reorged blocks) is made there: a new subscription runs from that height to that height + duration, a renewal keeps its start and adds one duration and one grant, the persisted row equals the receipt, the subscription is usable afterwards.", ev.rule);
    }
    runner::conclude(ctx, c.id, stats, ev, started)
}

//! C11 — the tower stays live: (a) schedule exploration with deadlock / panic / liveness-probe verdicts (the explorer
//! of C10, without the serialisability judgement), (b) lifecycle histories with the panic hook.
use std::time::Instant;

use serde_json::json;

use crate::evidence::Evidence;
use crate::runner::{self, Ctx};
use crate::{props::c10, props::tower, sched};

pub fn run(ctx: &Ctx) -> i32 {
    let started = Instant::now();
    sched::install();
    if let Some(p) = &ctx.replay {
        // a replay file is either a (scenario, schedule) pair or a history
        let body: serde_json::Value = serde_json::from_str(&std::fs::read_to_string(p).expect("read replay")).expect("json");
        if body["case"].get("scenario").is_some() {
            return c10::replay(p);
        }
        let mut c = ctx.clone();
        c.property = "C11H".into();
        return tower::run(&c);
    }
    let ex = c10::explore(ctx, false);
    let (rs, rn) = c10::replay_regressions(false);
    let mut stats = ex.stats;
    stats.merge(rs);
    let schedules = ex.schedules;
    let hung = ex.hung;
    // lock-order graph over everything executed: a cycle is only a lead, reported in the evidence
    let edges: Vec<String> = ex.order_edges.iter().map(|((a, b), who)| format!("{a} -> {b} ({})", who.iter().cloned().collect::<Vec<_>>().join(", "))).collect();
    let mut cycles = vec![];
    for ((a, b), _) in &ex.order_edges {
        if a < b && ex.order_edges.contains_key(&(b.clone(), a.clone())) {
            cycles.push(format!("{a} <-> {b}"));
        }
    }
    if stats.failures.is_empty() {
        // (the scheduler's observer is no longer wanted: single-threaded histories get the re-lock watchdog instead)
        crate::relock::install();
        let (camp, quick, thorough, _) = tower::campaign("C11H").unwrap();
        let n = if ctx.thorough() { thorough } else { quick };
        let hs = runner::run_campaign(&camp, ctx, n);
        stats.merge(hs);
    }
    let mut ev = Evidence::default();
    ev.level = "exploration".into();
    ev.rule = format!(
        "(a) {} scenarios of 2-3 concurrent operations (requests of every kind x block connect with a dispute / completing a tracker / purging the user / with a stale tracker / reorg), \
         all schedules with a bounded number of preemptions at lock-acquisition granularity ({schedules} schedules executed): verdict = no runnable thread left (circular wait), a panic in any thread, \
         or the tower not answering a registration and not processing a block afterwards; (b) lifecycle histories (resubmission of appointments in every lifecycle state, every node verdict, node ahead of the tower): \
         verdict = panic hook fired in a handler or in block processing (a thread asking for a lock it already holds is turned into a panic by an observer of the lock shim, so a self-deadlock does not hang the campaign). Non-trivial = (a) a thread was switched out while holding a lock, (b) a resubmission / re-trigger / update happened.",
        ex.scenarios
    );
    ev.extra.insert("schedules_executed".into(), json!(schedules));
    ev.extra.insert("regression_schedules_replayed".into(), json!(rn));
    ev.extra.insert("lock_order_edges".into(), json!(edges));
    ev.extra.insert("lock_order_two_cycles(leads only)".into(), json!(cycles));
    ev.assumptions = vec![
        "scheduling points are the tower's own mutexes/condvars; bounded preemptions; plain threads instead of the tokio runtime".into(),
        "histories run one operation at a time".into(),
    ];
    let code = runner::conclude(ctx, "C11", stats, ev, started);
    if code == 0 && hung > 0 {
        eprintln!("inconclusive: scheduler watchdog fired {hung} times");
        return 2;
    }
    code
}

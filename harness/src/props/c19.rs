//! C19 — recent-block look-ups equal the last N blocks of the active chain.
//!
//! Oracle: a plain list of (hash, height, keys) blocks. The real `TxIndex` (both instantiations the
//! tower uses) is driven with real blocks through `TxIndex::new`, `update`, `remove_disconnected_block`.

use std::collections::{HashMap, VecDeque};
use std::time::Instant;

use bitcoin::block::{Block, Header, Version as BlockVersion};
use bitcoin::hashes::Hash;
use bitcoin::merkle_tree::calculate_root;
use bitcoin::{BlockHash, Transaction, Txid};
use lightning_block_sync::poll::{Validate, ValidatedBlock};
use lightning_block_sync::BlockData;
use proptest::prelude::*;
use serde::{Deserialize, Serialize};
use serde_json::json;

use teos::verif::TxIndex;
use teos_common::appointment::Locator;

use crate::evidence::Evidence;
use crate::runner::{self, Campaign, CaseReport, Ctx, Violation};
use crate::simnode::txs;

#[derive(Debug, Clone, Copy, Serialize, Deserialize, PartialEq, Eq)]
pub enum Op {
    /// connect a block containing the still-unconfirmed keys selected by the mask
    Connect(u8),
    Disconnect,
}

#[derive(Debug, Clone, Serialize, Deserialize)]
pub struct Case {
    pub n: usize,
    pub keys: usize,
    pub ops: Vec<Op>,
}

const BASE_EXTRA: usize = 5; // blocks below the initial view, so that deep disconnects are possible
const H0: u32 = 300;

fn mk_block(prev: BlockHash, salt: u32, txdata: Vec<Transaction>) -> Block {
    let bits = bitcoin::Target::from_be_bytes([0xff; 32]).to_compact_lossy();
    let mut txs = vec![txs::noise(0xC19, 1_000_000 + salt)];
    txs.extend(txdata);
    let hashes = txs.iter().map(|tx| tx.compute_txid().to_raw_hash());
    let mut header = Header {
        version: BlockVersion::from_consensus(0),
        prev_blockhash: prev,
        merkle_root: calculate_root(hashes).unwrap().into(),
        time: salt,
        bits,
        nonce: 0,
    };
    while header.validate_pow(header.target()).is_err() {
        header.nonce += 1;
    }
    Block { header, txdata: txs }
}

struct MBlock {
    hash: BlockHash,
    height: u32,
    keys: Vec<usize>,
}

pub fn run_one(case: &Case) -> CaseReport {
    let mut rep = CaseReport::default();
    let n = case.n;
    let universe: Vec<Transaction> = (0..case.keys as u32).map(|i| txs::noise(0xC19, i)).collect();
    let txids: Vec<Txid> = universe.iter().map(|t| t.compute_txid()).collect();

    // base chain: BASE_EXTRA + n blocks without universe keys, tip at H0
    let mut chain: Vec<MBlock> = Vec::new();
    let mut all_blocks: Vec<(BlockHash, Block)> = Vec::new();
    let mut prev = BlockHash::all_zeros();
    let mut salt = 0u32;
    let first_h = H0 + 1 - (BASE_EXTRA + n) as u32;
    for i in 0..(BASE_EXTRA + n) {
        salt += 1;
        let b = mk_block(prev, salt, vec![]);
        prev = b.block_hash();
        chain.push(MBlock {
            hash: prev,
            height: first_h + i as u32,
            keys: vec![],
        });
        all_blocks.push((prev, b));
    }
    // last n blocks, latest first, as main.rs passes them
    let last_n: Vec<ValidatedBlock> = all_blocks
        .iter()
        .rev()
        .take(n)
        .map(|(h, b)| BlockData::FullBlock(b.clone()).validate(*h).unwrap())
        .collect();
    let mut idx_r: TxIndex<Txid, BlockHash> = TxIndex::new(&last_n, H0);
    let mut idx_w: TxIndex<Locator, Transaction> = TxIndex::new(&last_n, H0);

    // model: the view is the tail of `chain` that was delivered to the index
    let mut view: VecDeque<usize> = ((chain.len() - n)..chain.len()).collect(); // indices into `arena`
    let mut arena: Vec<MBlock> = chain; // every block ever created (never removed)
    let mut active: Vec<usize> = (0..arena.len()).collect();
    let mut over = false;
    let mut n_disc_then_conn = 0;
    let mut evictions_with_keys = 0;
    let mut reappear = 0;
    let mut ever_confirmed = vec![false; case.keys];
    let mut after_disc = false;
    let mut eff_ops: Vec<String> = vec![];

    let check = |idx_r: &TxIndex<Txid, BlockHash>,
                     idx_w: &TxIndex<Locator, Transaction>,
                     arena: &Vec<MBlock>,
                     view: &VecDeque<usize>,
                     over: bool,
                     step: usize|
     -> Option<Violation> {
        for (k, txid) in txids.iter().enumerate() {
            let exp = view.iter().map(|&i| &arena[i]).find(|b| b.keys.contains(&k));
            let got = idx_r.get(txid);
            let loc = Locator::new(*txid);
            let gotw = idx_w.get(&loc);
            match (exp, got) {
                (None, Some(_)) => {
                    return Some(Violation {
                        property: "C19".into(),
                        signature: "get-returns-stale-entry".into(),
                        message: format!("step {step}: key {k} is in no block of the last-{} view but the txid index returns an entry", view.len()),
                    })
                }
                (Some(_), None) => {
                    return Some(Violation {
                        property: "C19".into(),
                        signature: "get-misses-live-entry".into(),
                        message: format!("step {step}: key {k} is in a live block but the txid index returns None"),
                    })
                }
                (Some(b), Some(h)) if *h != b.hash => {
                    return Some(Violation {
                        property: "C19".into(),
                        signature: "get-maps-to-wrong-block".into(),
                        message: format!("step {step}: key {k} mapped to a block other than the live one containing it"),
                    })
                }
                _ => {}
            }
            match (exp, gotw) {
                (None, Some(_)) => {
                    return Some(Violation {
                        property: "C19".into(),
                        signature: "locator-get-returns-stale-entry".into(),
                        message: format!("step {step}: locator of key {k} not live but the locator cache returns a transaction"),
                    })
                }
                (Some(_), None) => {
                    return Some(Violation {
                        property: "C19".into(),
                        signature: "locator-get-misses-live-entry".into(),
                        message: format!("step {step}: locator of key {k} live but not in the locator cache"),
                    })
                }
                (Some(_), Some(t)) if t.compute_txid() != *txid => {
                    return Some(Violation {
                        property: "C19".into(),
                        signature: "locator-get-wrong-tx".into(),
                        message: format!("step {step}: locator of key {k} returns another transaction"),
                    })
                }
                _ => {}
            }
        }
        if !over {
            for (i, b) in arena.iter().enumerate() {
                let exp = view.contains(&i).then_some(b.height as usize);
                for (name, got) in [("txid", idx_r.get_height(&b.hash)), ("locator", idx_w.get_height(&b.hash))] {
                    if got != exp {
                        let underfull = view.len() < n;
                        return Some(Violation {
                            property: "C19".into(),
                            signature: if exp.is_none() {
                                "height-of-dead-block".into()
                            } else if got.is_none() {
                                "height-missing".into()
                            } else if underfull {
                                "height-off-after-disconnect".into()
                            } else {
                                "height-off".into()
                            },
                            message: format!(
                                "step {step}: {name} index reports height {got:?} for a block whose true height is {exp:?} (view holds {} of {n} blocks)",
                                view.len()
                            ),
                        });
                    }
                }
            }
        }
        None
    };

    if let Some(v) = check(&idx_r, &idx_w, &arena, &view, over, 0) {
        rep.violations.push(v);
    }
    for (step, op) in case.ops.iter().enumerate() {
        if !rep.violations.is_empty() {
            break;
        }
        match op {
            Op::Connect(mask) => {
                let confirmed: Vec<usize> = active.iter().flat_map(|&i| arena[i].keys.clone()).collect();
                let keys: Vec<usize> = (0..case.keys)
                    .filter(|k| mask & (1 << k) != 0 && !confirmed.contains(k))
                    .collect();
                salt += 1;
                let prev = arena[*active.last().unwrap()].hash;
                let height = arena[*active.last().unwrap()].height + 1;
                let b = mk_block(prev, salt, keys.iter().map(|&k| universe[k].clone()).collect());
                let hash = b.block_hash();
                let map_r: HashMap<Txid, BlockHash> = b.txdata.iter().map(|t| (t.compute_txid(), hash)).collect();
                let map_w: HashMap<Locator, Transaction> =
                    b.txdata.iter().map(|t| (Locator::new(t.compute_txid()), t.clone())).collect();
                idx_r.update(b.header, &map_r);
                idx_w.update(b.header, &map_w);
                for &k in &keys {
                    if ever_confirmed[k] {
                        reappear += 1;
                    }
                    ever_confirmed[k] = true;
                }
                arena.push(MBlock { hash, height, keys: keys.clone() });
                active.push(arena.len() - 1);
                view.push_back(arena.len() - 1);
                if view.len() > n {
                    let old = view.pop_front().unwrap();
                    if !arena[old].keys.is_empty() {
                        evictions_with_keys += 1;
                    }
                }
                if after_disc {
                    n_disc_then_conn += 1;
                    after_disc = false;
                }
                eff_ops.push(format!("C{:?}", keys));
            }
            Op::Disconnect => {
                if active.len() <= 1 {
                    eff_ops.push("-".into());
                    continue;
                }
                let tip = active.pop().unwrap();
                let hash = arena[tip].hash;
                idx_r.remove_disconnected_block(&hash);
                idx_w.remove_disconnected_block(&hash);
                if view.back() == Some(&tip) {
                    view.pop_back();
                } else {
                    // the index no longer holds this block: a reorg deeper than the view
                    over = true;
                }
                after_disc = true;
                eff_ops.push("D".into());
            }
        }
        if let Some(v) = check(&idx_r, &idx_w, &arena, &view, over, step + 1) {
            rep.violations.push(v);
        }
    }
    if n_disc_then_conn > 0 {
        rep.classes.push("disconnect-then-connect".into());
    }
    if evictions_with_keys > 0 {
        rep.classes.push("eviction-of-block-with-keys".into());
    }
    if reappear > 0 {
        rep.classes.push("key-reappears-in-replacement-block".into());
    }
    if over {
        rep.classes.push("reorg-deeper-than-view(height-not-judged)".into());
    }
    rep.nontrivial = n_disc_then_conn > 0 || evictions_with_keys > 0;
    rep.key = format!("n{}:{}", n, eff_ops.join(","));
    rep.sample = Some(json!({"n": n, "ops": eff_ops}));
    rep
}

pub struct C19;
impl Campaign for C19 {
    type Case = Case;
    fn name(&self) -> &str {
        "C19"
    }
    fn strategy(&self) -> BoxedStrategy<Case> {
        let op = prop_oneof![
            3 => (0u8..32).prop_map(Op::Connect),
            1 => Just(Op::Connect(0)),
            2 => Just(Op::Disconnect),
        ];
        (prop_oneof![Just(6usize), Just(100usize), Just(2usize)], proptest::collection::vec(op, 0..60))
            .prop_map(|(n, ops)| Case { n, keys: 5, ops })
            .boxed()
    }
    fn run_case(&self, case: &Case, _w: usize) -> CaseReport {
        run_one(case)
    }
}

fn decode(mut i: u64, max_len: usize) -> Case {
    // i enumerates (n in 1..=3) x (sequences of length 0..=max_len over 9 symbols), shortest first
    let n = (i % 3) as usize + 1;
    i /= 3;
    let mut len = 0usize;
    let mut count = 1u64;
    while i >= count {
        i -= count;
        len += 1;
        count *= 9;
    }
    let _ = max_len;
    let mut ops = Vec::with_capacity(len);
    for _ in 0..len {
        let d = (i % 9) as u8;
        i /= 9;
        ops.push(if d == 8 { Op::Disconnect } else { Op::Connect(d) });
    }
    Case { n, keys: 3, ops }
}

pub fn run(ctx: &Ctx) -> i32 {
    let started = Instant::now();
    if let Some(p) = &ctx.replay {
        // a saved case of the composed tower segment is a history, not an index sequence
        let is_history = std::fs::read_to_string(p).ok().and_then(|t| serde_json::from_str::<serde_json::Value>(&t).ok()).map_or(false, |v| serde_json::from_value::<crate::ops::History>(v["case"].clone()).is_ok());
        if is_history {
            let (c, _, _, _) = crate::props::tower::campaign("C04").unwrap();
            return runner::replay(&c, p);
        }
        return runner::replay(&C19, p);
    }
    let max_len = if ctx.thorough() { 7 } else { 5 };
    let mut total = 0u64;
    let mut c = 1u64;
    for _ in 0..=max_len {
        total += c;
        c *= 9;
    }
    total *= 3;
    let mut stats = runner::run_indexed(ctx, total, &|i| {
        let case = decode(i, max_len);
        let rep = run_one(&case);
        (serde_json::to_value(&case).unwrap(), rep)
    });
    let exhaustive_n = stats.evaluations;
    let failed = !stats.failures.is_empty();
    if !failed {
        let s2 = runner::run_campaign(&C19, ctx, if ctx.thorough() { 5000 } else { 200 });
        stats.merge(s2);
    }
    // composed segment: the indexes as the Watcher and the Responder use them (they must be told about every
    // connection and disconnection): chain-heavy histories on the real tower against the reference model
    let mut tower_cases = 0u64;
    if stats.failures.is_empty() {
        let (c, _, _, _) = crate::props::tower::campaign("C04").unwrap();
        let s3 = runner::run_campaign(&c, ctx, if ctx.thorough() { 1500 } else { 150 });
        tower_cases = s3.evaluations;
        stats.merge(s3);
    }
    let mut ev = Evidence::default();
    ev.level = "exploration".into();
    ev.extra.insert("composed_tower_histories".into(), json!(tower_cases));
    ev.rule = format!(
        "exhaustive: every sequence of length <= {max_len} over {{connect(any subset of 3 keys), disconnect}} for index sizes N=1,2,3 \
         ({exhaustive_n} sequences); random: proptest sequences of length < 60 over 5 keys for N=2,6,100 with real blocks. After every step \
         get() of every key and get_height() of every block ever created are compared with a list-of-blocks specification, for both \
         instantiations (txid->block hash, locator->transaction). Non-trivial = the sequence connects after a disconnect or evicts a block that had keys; \
         distinct = distinct effective operation lists. Composed segment: {tower_cases} chain-profile histories (many mine / reorg / poll, penalties confirmed in blocks that are \
         reorged out) on the real tower, whose Watcher and Responder own the two indexes, judged by the reference model (violations carry the owning property's id, C01/C04)."
    );
    ev.exhaustive = Some(false);
    ev.extra.insert("exhaustive_small_scope_sequences".into(), json!(exhaustive_n));
    ev.assumptions = vec![
        "a transaction is confirmed in at most one block of the active chain at a time (consensus)".into(),
        "disconnects are always of the current tip (what lightning-block-sync delivers)".into(),
        "heights are not judged once a reorg went deeper than the blocks the index holds".into(),
    ];
    runner::conclude(ctx, "C19", stats, ev, started)
}

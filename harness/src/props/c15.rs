//! C15 — every HTTP request gets a documented answer; bad ones change nothing.
//! Real warp router (teos::api::http::serve) + tonic + the real tower (towerbox) behind it, requests over raw TCP.

use std::sync::{Arc, RwLock};
use std::time::Instant;

use proptest::prelude::*;
use serde::{Deserialize, Serialize};
use serde_json::{json, Value};
use tonic::{Request, Response, Status};

use teos::api::internal::InternalAPI;
use teos::protos::public_tower_services_server::PublicTowerServices;
use teos_common::appointment::Appointment;
use teos_common::cryptography;
use teos_common::protos as msgs;

use crate::evidence::Evidence;
use crate::httpfront::{raw_request, Front};
use crate::model::Locator;
use crate::ops::{BlobKind, Op, SigKind, Take, TxRef};
use crate::plain::setup_op;
use crate::runner::{self, Campaign, CaseReport, Ctx, Violation};
use crate::simnode::{txs, Node};
use crate::towerbox::{Tower, TowerCfg};
use crate::world::{blob_of, scratch_dir, user_pk, user_sk, SALT, START_HEIGHT};

/// gRPC service that forwards to whichever tower is currently plugged in (so the HTTP front can stay up).
#[derive(Clone, Default)]
pub struct Switch(pub Arc<RwLock<Option<Arc<InternalAPI>>>>);

impl Switch {
    fn api(&self) -> Result<Arc<InternalAPI>, Status> {
        self.0.read().unwrap().clone().ok_or_else(|| Status::unavailable("no tower plugged in"))
    }
}

#[tonic::async_trait]
impl PublicTowerServices for Switch {
    async fn register(&self, r: Request<msgs::RegisterRequest>) -> Result<Response<msgs::RegisterResponse>, Status> {
        let api = self.api()?;
        PublicTowerServices::register(&api, r).await
    }
    async fn add_appointment(&self, r: Request<msgs::AddAppointmentRequest>) -> Result<Response<msgs::AddAppointmentResponse>, Status> {
        let api = self.api()?;
        PublicTowerServices::add_appointment(&api, r).await
    }
    async fn get_appointment(&self, r: Request<msgs::GetAppointmentRequest>) -> Result<Response<msgs::GetAppointmentResponse>, Status> {
        let api = self.api()?;
        PublicTowerServices::get_appointment(&api, r).await
    }
    async fn get_subscription_info(&self, r: Request<msgs::GetSubscriptionInfoRequest>) -> Result<Response<msgs::GetSubscriptionInfoResponse>, Status> {
        let api = self.api()?;
        PublicTowerServices::get_subscription_info(&api, r).await
    }
}

pub const ENDPOINTS: [(&str, usize); 4] = [("register", 87), ("add_appointment", 2048), ("get_appointment", 178), ("get_subscription_info", 127)];
pub const METHODS: [&str; 7] = ["POST", "GET", "PUT", "DELETE", "PATCH", "HEAD", "OPTIONS"];
pub const DOCUMENTED_CODES: [u8; 11] = [1, 2, 3, 4, 5, 6, 7, 32, 35, 36, 65];

#[derive(Debug, Clone, Serialize, Deserialize)]
pub enum Mutation {
    None,
    DropField(u8),
    Null(u8),
    NumToString(u8),
    StringToNum(u8),
    ToArray(u8),
    ToBool(u8),
    ToObject(u8),
    EmptyString(u8),
    OddHex(u8),
    /// a hex field of the right length whose bytes are another value of the same length (for a public key: not a point)
    OtherBytes(u8, u8),
    NonHex(u8, u8),
    Longer(u8, u8),
    Shorter(u8, u8),
    Huge(u8, u16),
    NonAscii(u8, u8),
    ExtraField,
    WrapArray(u8),
    DuplicateKey(u8),
    /// pad the body with spaces to limit + delta bytes
    PadTo(i8),
    TrailingGarbage,
    NegativeNumber(u8),
    FloatNumber(u8),
    BigNumber(u8),
}

#[derive(Debug, Clone, Serialize, Deserialize)]
pub enum Body {
    /// a valid request body for endpoint by user `u` about channel `chan`, then mutated
    Structured { u: u8, chan: u8, blob_len: u16, mutation: Mutation },
    Raw(Vec<u8>),
    Text(String),
    Nested(u16),
    Empty,
}

#[derive(Debug, Clone, Serialize, Deserialize)]
pub struct Req {
    pub method: u8,
    /// 0..4 = the four POST endpoints, 4 = ping, 5.. = other paths
    pub target: u8,
    pub path_variant: u8,
    pub body: Body,
    pub content_type: u8,
}

#[derive(Debug, Clone, Serialize, Deserialize)]
pub struct Case {
    /// subscriptions of 2^31 slots, so that a renewal hits the maximum (error 65)
    #[serde(default)]
    pub huge_slots: bool,
    pub node_down: bool,
    pub reqs: Vec<Req>,
}

fn leaf_paths(v: &Value, prefix: Vec<String>, out: &mut Vec<Vec<String>>) {
    match v {
        Value::Object(m) => {
            for (k, x) in m {
                let mut p = prefix.clone();
                p.push(k.clone());
                out.push(p.clone());
                leaf_paths(x, p, out);
            }
        }
        _ => {}
    }
}

fn get_mut<'a>(v: &'a mut Value, path: &[String]) -> Option<&'a mut Value> {
    let mut cur = v;
    for k in path {
        cur = cur.get_mut(k)?;
    }
    Some(cur)
}

fn remove_at(v: &mut Value, path: &[String]) {
    if path.is_empty() {
        return;
    }
    let (last, parent) = path.split_last().unwrap();
    if let Some(Value::Object(m)) = get_mut(v, parent) {
        m.remove(last);
    }
}

pub fn valid_body(endpoint: usize, u: u8, chan: u8, blob_len: u16) -> Value {
    let dispute = txs::dispute(SALT, chan as u32 % 8, 0);
    let locator = Locator::new(dispute.compute_txid());
    match endpoint {
        0 => json!({"user_id": hex::encode(user_pk(u).serialize())}),
        1 => {
            let blob: Vec<u8> = if blob_len == 0 { blob_of(BlobKind::Valid { len: 0, var: 0 }, &dispute) } else { (0..blob_len).map(|i| (i * 7 + 3) as u8).collect() };
            let appt = Appointment::new(locator.real(), blob.clone(), 42);
            let sig = cryptography::sign(&appt.to_vec(), &user_sk(u));
            json!({"appointment": {"locator": hex::encode(locator.to_vec()), "encrypted_blob": hex::encode(blob), "to_self_delay": 42}, "signature": sig})
        }
        2 => {
            let sig = cryptography::sign(format!("get appointment {locator}").as_bytes(), &user_sk(u));
            json!({"locator": hex::encode(locator.to_vec()), "signature": sig})
        }
        _ => json!({"signature": cryptography::sign(b"get subscription info", &user_sk(u))}),
    }
}

pub fn render_body(endpoint: usize, b: &Body) -> Vec<u8> {
    match b {
        Body::Raw(r) => r.clone(),
        Body::Text(t) => t.clone().into_bytes(),
        Body::Nested(n) => {
            let mut s = String::new();
            for _ in 0..*n {
                s.push('[');
            }
            for _ in 0..*n {
                s.push(']');
            }
            s.into_bytes()
        }
        Body::Empty => vec![],
        Body::Structured { u, chan, blob_len, mutation } => {
            let ep = endpoint.min(3);
            let mut v = valid_body(ep, *u, *chan, *blob_len);
            let mut paths = vec![];
            leaf_paths(&v, vec![], &mut paths);
            let pick = |i: u8| paths[i as usize % paths.len()].clone();
            let limit = ENDPOINTS[ep].1 as i64;
            let mut text: Option<String> = None;
            match mutation {
                Mutation::None => {}
                Mutation::DropField(i) => remove_at(&mut v, &pick(*i)),
                Mutation::Null(i) => *get_mut(&mut v, &pick(*i)).unwrap() = Value::Null,
                Mutation::NumToString(i) => {
                    let t = get_mut(&mut v, &pick(*i)).unwrap();
                    if t.is_number() {
                        *t = json!(t.to_string());
                    } else {
                        *t = json!("42");
                    }
                }
                Mutation::StringToNum(i) => *get_mut(&mut v, &pick(*i)).unwrap() = json!(1234),
                Mutation::ToArray(i) => {
                    let t = get_mut(&mut v, &pick(*i)).unwrap();
                    *t = json!([t.clone()]);
                }
                Mutation::ToBool(i) => *get_mut(&mut v, &pick(*i)).unwrap() = json!(true),
                Mutation::ToObject(i) => *get_mut(&mut v, &pick(*i)).unwrap() = json!({"a": 1}),
                Mutation::EmptyString(i) => *get_mut(&mut v, &pick(*i)).unwrap() = json!(""),
                Mutation::OddHex(i) => {
                    let t = get_mut(&mut v, &pick(*i)).unwrap();
                    if let Some(s) = t.as_str() {
                        let mut s = s.to_string();
                        s.pop();
                        *t = json!(s);
                    }
                }
                Mutation::OtherBytes(i, fill) => {
                    let t = get_mut(&mut v, &pick(*i)).unwrap();
                    if let Some(s) = t.as_str() {
                        if s.len() % 2 == 0 && s.len() >= 2 && s.bytes().all(|c| c.is_ascii_hexdigit()) {
                            // same length, valid hex: a bad prefix byte followed by a repeated filler (0x00.. is no curve point)
                            let mut o = format!("{:02x}", [0x05u8, 0x02, 0x00, 0xff][*fill as usize % 4]);
                            while o.len() < s.len() {
                                o.push_str(&format!("{:02x}", fill / 4));
                            }
                            *t = json!(o);
                        }
                    }
                }
                Mutation::NonHex(i, pos) => {
                    let t = get_mut(&mut v, &pick(*i)).unwrap();
                    if let Some(s) = t.as_str() {
                        let mut b = s.as_bytes().to_vec();
                        if !b.is_empty() {
                            let p = *pos as usize % b.len();
                            b[p] = b"gZ-_ !"[*pos as usize % 6];
                            *t = json!(String::from_utf8_lossy(&b).to_string());
                        }
                    }
                }
                Mutation::Longer(i, n) => {
                    let t = get_mut(&mut v, &pick(*i)).unwrap();
                    if let Some(s) = t.as_str() {
                        *t = json!(format!("{s}{}", "ab".repeat(1 + *n as usize % 40)));
                    }
                }
                Mutation::Shorter(i, n) => {
                    let t = get_mut(&mut v, &pick(*i)).unwrap();
                    if let Some(s) = t.as_str() {
                        let keep = s.len().saturating_sub(2 * (1 + *n as usize % 10));
                        *t = json!(s[..keep].to_string());
                    }
                }
                Mutation::Huge(i, n) => *get_mut(&mut v, &pick(*i)).unwrap() = json!("ab".repeat(*n as usize % 3000)),
                Mutation::NonAscii(i, n) => {
                    let units = ["é", "€", "😀", "ß", "漢"];
                    let pre = "x".repeat(*n as usize % 7);
                    *get_mut(&mut v, &pick(*i)).unwrap() = json!(format!("{pre}{}", units[*n as usize % 5].repeat(20 + *n as usize % 60)));
                }
                Mutation::ExtraField => {
                    v["unexpected"] = json!("field");
                }
                Mutation::WrapArray(d) => {
                    for _ in 0..(1 + d % 5) {
                        v = json!([v]);
                    }
                }
                Mutation::DuplicateKey(i) => {
                    let p = pick(*i);
                    let key = p.last().unwrap().clone();
                    let s = v.to_string();
                    text = Some(s.replacen('{', &format!("{{\"{key}\":\"00\","), 1));
                }
                Mutation::PadTo(delta) => {
                    let s = v.to_string();
                    let want = (limit + *delta as i64).max(0) as usize;
                    text = Some(if want > s.len() { format!("{s}{}", " ".repeat(want - s.len())) } else { s });
                }
                Mutation::TrailingGarbage => text = Some(format!("{}}}garbage", v)),
                Mutation::NegativeNumber(i) => *get_mut(&mut v, &pick(*i)).unwrap() = json!(-1),
                Mutation::FloatNumber(i) => *get_mut(&mut v, &pick(*i)).unwrap() = json!(4.2),
                Mutation::BigNumber(i) => *get_mut(&mut v, &pick(*i)).unwrap() = json!(4294967296u64),
            }
            text.unwrap_or_else(|| v.to_string()).into_bytes()
        }
    }
}

pub fn target_path(target: u8, variant: u8) -> String {
    let base = match target {
        0..=3 => format!("/{}", ENDPOINTS[target as usize].0),
        4 => "/ping".to_string(),
        5 => "/".to_string(),
        6 => "/unknown".to_string(),
        7 => "/Register".to_string(),
        8 => format!("/{}", "a".repeat(300)),
        _ => "/teos/register".to_string(),
    };
    match variant % 8 {
        0..=4 => base,
        5 => format!("{base}?x=1"),
        6 => format!("{base}/"),
        _ => format!("{base}/extra"),
    }
}

pub struct Worker {
    pub front: Front,
    pub switch: Switch,
}

pub struct C15 {
    pub workers: Vec<std::sync::Mutex<Worker>>,
}

/// A fresh tower in a fixed non-trivial state, plugged behind the front.
fn fresh_world(w: usize, huge_slots: bool) -> (Tower, Arc<Node>, std::path::PathBuf) {
    let node = Node::new(START_HEIGHT, false);
    {
        let mut st = node.lock();
        for c in 0..8u32 {
            st.funded.insert(txs::funding(SALT, c));
        }
    }
    let dir = scratch_dir(&format!("c15-{w}"));
    let _ = std::fs::remove_dir_all(&dir);
    let mut tower = Tower::boot(node.clone(), &dir, TowerCfg { slots: if huge_slots { 1 << 31 } else { 3 }, duration: 50, grace: 1000 }).expect("boot");
    let add = |u: u8, chan: u8| Op::Add { u, chan, dvar: 0, blob: BlobKind::Valid { len: 0, var: 0 }, delay: 42, sig: SigKind::Good };
    let setup = vec![
        Op::Register { u: 3 }, // will be expired
        Op::MineMany { n: 51, take: Take::All },
        Op::Poll,
        Op::Register { u: 0 },
        Op::Register { u: 1 },
        Op::Register { u: 2 },
        add(1, 1),
        add(2, 2),
        Op::Mine { take: Take::All, extra: vec![TxRef::Dispute(2, 0)] },
        Op::Poll, // user 2's appointment is now dispute_responded
        Op::Register { u: 4 },
        add(4, 3),
        add(4, 4),
        add(4, 5), // user 4 has no slots left
    ];
    for op in &setup {
        setup_op(&node, &mut tower, op).expect("setup");
    }
    if huge_slots {
        // a user with many appointments: replies that grow with the user's data (get_subscription_info lists every locator)
        setup_op(&node, &mut tower, &Op::Register { u: 5 }).expect("setup");
        for chan in 50..190u8 {
            setup_op(&node, &mut tower, &add(5, chan)).expect("setup");
        }
    }
    (tower, node, dir)
}

impl Campaign for C15 {
    type Case = Case;
    fn name(&self) -> &str {
        "C15"
    }
    fn strategy(&self) -> BoxedStrategy<Case> {
        let mutation = prop_oneof![
            2 => Just(Mutation::None),
            1 => any::<u8>().prop_map(Mutation::DropField),
            1 => any::<u8>().prop_map(Mutation::Null),
            1 => any::<u8>().prop_map(Mutation::NumToString),
            1 => any::<u8>().prop_map(Mutation::StringToNum),
            1 => any::<u8>().prop_map(Mutation::ToArray),
            1 => any::<u8>().prop_map(Mutation::ToBool),
            1 => any::<u8>().prop_map(Mutation::ToObject),
            1 => any::<u8>().prop_map(Mutation::EmptyString),
            1 => any::<u8>().prop_map(Mutation::OddHex),
            2 => (any::<u8>(), any::<u8>()).prop_map(|(a, b)| Mutation::OtherBytes(a, b)),
            1 => (any::<u8>(), any::<u8>()).prop_map(|(a, b)| Mutation::NonHex(a, b)),
            1 => (any::<u8>(), any::<u8>()).prop_map(|(a, b)| Mutation::Longer(a, b)),
            1 => (any::<u8>(), any::<u8>()).prop_map(|(a, b)| Mutation::Shorter(a, b)),
            1 => (any::<u8>(), any::<u16>()).prop_map(|(a, b)| Mutation::Huge(a, b)),
            2 => (any::<u8>(), any::<u8>()).prop_map(|(a, b)| Mutation::NonAscii(a, b)),
            1 => Just(Mutation::ExtraField),
            1 => any::<u8>().prop_map(Mutation::WrapArray),
            1 => any::<u8>().prop_map(Mutation::DuplicateKey),
            2 => (-2i8..=2).prop_map(Mutation::PadTo),
            1 => Just(Mutation::TrailingGarbage),
            1 => any::<u8>().prop_map(Mutation::NegativeNumber),
            1 => any::<u8>().prop_map(Mutation::FloatNumber),
            1 => any::<u8>().prop_map(Mutation::BigNumber),
        ];
        let body = prop_oneof![
            12 => (prop_oneof![6 => 0u8..6, 1 => Just(9u8)], 0u8..6, prop_oneof![4 => Just(0u16), 1 => 0u16..1100], mutation).prop_map(|(u, chan, blob_len, mutation)| Body::Structured { u, chan, blob_len, mutation }),
            2 => proptest::collection::vec(any::<u8>(), 0..300).prop_map(Body::Raw),
            2 => prop_oneof![Just("{".to_string()), Just("[]".to_string()), Just("null".to_string()), Just("\"str\"".to_string()), Just("{}".to_string()), Just("\u{feff}{}".to_string()), Just("{\"user_id\": }".to_string()), "[ -~]{0,80}".prop_map(|s| s)].prop_map(Body::Text),
            1 => (1u16..3000).prop_map(Body::Nested),
            1 => Just(Body::Empty),
        ];
        let req = (
            prop_oneof![8 => Just(0u8), 2 => Just(1u8), 1 => 2u8..7],
            prop_oneof![10 => 0u8..4, 1 => Just(4u8), 1 => 5u8..10],
            any::<u8>(),
            body,
            prop_oneof![10 => 0u8..2, 1 => 2u8..4],
        )
            .prop_map(|(method, target, path_variant, body, content_type)| Req { method, target, path_variant, body, content_type });
        (proptest::bool::weighted(0.15), proptest::bool::weighted(0.15), proptest::collection::vec(req, 1..12)).prop_map(|(huge_slots, node_down, reqs)| Case { huge_slots, node_down, reqs }).boxed()
    }

    fn run_case(&self, case: &Case, w: usize) -> CaseReport {
        let mut rep = CaseReport::default();
        let worker = self.workers[w % self.workers.len()].lock().unwrap();
        let (tower, _node, dir) = fresh_world(w, case.huge_slots);
        *worker.switch.0.write().unwrap() = Some(tower.api.clone());
        if case.node_down {
            *tower.reachable.0.lock().unwrap() = false;
        }
        let panics_before = crate::panics::PANICS.load(std::sync::atomic::Ordering::SeqCst);
        let mut classes = std::collections::BTreeSet::new();
        let mut reached = 0u64;
        for (i, r) in case.reqs.iter().enumerate() {
            let method = METHODS[r.method as usize % METHODS.len()];
            let path = target_path(r.target, r.path_variant);
            let ep = r.target as usize;
            let body = render_body(ep, &r.body);
            let headers = match r.content_type {
                0 | 1 => vec![("Content-Type".to_string(), "application/json".to_string())],
                2 => vec![("Content-Type".to_string(), "text/plain".to_string())],
                _ => vec![],
            };
            let memory = |t: &Tower, snap: &crate::towerbox::Snapshot| -> Vec<(u32, u32)> {
                snap.users.keys().filter_map(|pk| t.get_user(pk.clone()).ok().flatten()).map(|u| (u.available_slots, u.subscription_expiry)).collect()
            };
            let before = tower.snapshot();
            let mem_before = memory(&tower, &before);
            let reply = raw_request(worker.front.http, method, &path, &headers, &body);
            let after = tower.snapshot();
            let mem_after = memory(&tower, &after);
            let desc = format!("request #{i}: {method} {path} ({} body bytes: {})", body.len(), String::from_utf8_lossy(&body[..body.len().min(160)]));
            let fail = |sig: &str, msg: String| Violation { property: "C15".into(), signature: sig.into(), message: format!("{desc} — {msg}") };
            let reply = match reply {
                Ok(r) => r,
                Err(e) => {
                    rep.violations.push(fail("no-reply", format!("the API did not answer: {e}")));
                    break;
                }
            };
            let first_seg = path.trim_start_matches('/').split(|c| c == '/' || c == '?').next().unwrap_or("").to_string();
            let known_ep = ENDPOINTS.iter().position(|(n, _)| *n == first_seg);
            let right_method = (known_ep.is_some() && method == "POST") || (first_seg == "ping" && method == "GET");
            let within = known_ep.map_or(true, |e| body.len() <= ENDPOINTS[e].1);
            classes.insert(format!("status-{}", reply.status));
            if !(reply.status == 200 || (400..500).contains(&reply.status) || reply.status == 503) {
                rep.violations.push(fail(&format!("status-{}", reply.status), format!("answered {} ({})", reply.status, String::from_utf8_lossy(&reply.body))));
                break;
            }
            if reply.status != 200 && (after != before || mem_after != mem_before) {
                rep.violations.push(fail("refused-request-changed-state", format!("answered {} but the tower's state changed ({})", reply.status, if after != before { "database" } else { "in-memory subscription data" })));
                break;
            }
            // a request that does not declare a JSON body is only required to get a 4xx (the router answers 415)
            let declares_json = r.content_type <= 1;
            if !declares_json && known_ep.is_some() && right_method && reply.status == 200 {
                classes.insert("accepted-without-json-content-type".into());
            }
            if let (Some(e), true, true, true) = (known_ep, right_method, within, declares_json || reply.status == 200) {
                if reply.status == 200 {
                    let ok = match e {
                        0 => serde_json::from_slice::<msgs::RegisterResponse>(&reply.body).is_ok(),
                        1 => serde_json::from_slice::<msgs::AddAppointmentResponse>(&reply.body).is_ok(),
                        2 => serde_json::from_slice::<msgs::GetAppointmentResponse>(&reply.body).is_ok(),
                        _ => serde_json::from_slice::<msgs::GetSubscriptionInfoResponse>(&reply.body).is_ok(),
                    };
                    reached += 1;
                    if !ok {
                        rep.violations.push(fail("ok-body-not-the-documented-reply", format!("200 with a body that is not the documented reply: {}", String::from_utf8_lossy(&reply.body))));
                        break;
                    }
                } else {
                    match serde_json::from_slice::<Value>(&reply.body) {
                        Ok(v) if v.get("error").map_or(false, |e| e.is_string()) && v.get("error_code").and_then(|c| c.as_u64()).is_some() => {
                            let code = v["error_code"].as_u64().unwrap();
                            classes.insert(format!("error_code-{code}"));
                            if code == 7 || code == 32 || code == 35 || code == 36 || code == 65 || code == 5 {
                                reached += 1;
                            }
                            if !DOCUMENTED_CODES.contains(&(code as u8)) {
                                rep.violations.push(fail(&format!("undocumented-error-code-{code}"), format!("answered {} with error_code {code}: {}", reply.status, v["error"])));
                                break;
                            }
                        }
                        _ => {
                            rep.violations.push(fail(
                                &format!("error-not-a-json-error-object:{}", reply.status),
                                format!("answered {} with a body that is not {{error, error_code}}: {}", reply.status, String::from_utf8_lossy(&reply.body[..reply.body.len().min(200)])),
                            ));
                            break;
                        }
                    }
                }
            }
        }
        let panics_after = crate::panics::PANICS.load(std::sync::atomic::Ordering::SeqCst);
        if rep.violations.is_empty() && panics_after != panics_before && self.workers.len() == 1 {
            rep.violations.push(Violation { property: "C15".into(), signature: "panic-while-serving".into(), message: format!("a handler panicked while serving: {:?}", crate::panics::last()) });
        }
        *worker.switch.0.write().unwrap() = None;
        drop(tower);
        let _ = std::fs::remove_dir_all(&dir);
        if case.node_down {
            classes.insert("node-flagged-unreachable".into());
        }
        if case.huge_slots {
            classes.insert("subscriptions-at-the-slot-maximum".into());
        }
        rep.classes = classes.into_iter().collect();
        rep.nontrivial = reached > 0;
        rep.key = rep.classes.join(",");
        rep.counters = vec![("requests".into(), case.reqs.len() as u64), ("requests_past_http_validation".into(), reached)];
        rep.sample = Some(json!({"node_down": case.node_down, "requests": case.reqs.iter().take(4).map(|r| format!("{} {} {}", METHODS[r.method as usize % 7], target_path(r.target, r.path_variant), String::from_utf8_lossy(&render_body(r.target as usize, &r.body)).chars().take(120).collect::<String>())).collect::<Vec<_>>()}));
        rep
    }
}

pub fn make(workers: usize) -> C15 {
    let ws = (0..workers)
        .map(|_| {
            let switch = Switch::default();
            let front = Front::start(switch.clone());
            std::sync::Mutex::new(Worker { front, switch })
        })
        .collect();
    C15 { workers: ws }
}

pub fn run(ctx: &Ctx) -> i32 {
    let started = Instant::now();
    if let Some(p) = &ctx.replay {
        if crate::fuzzdrive::is_artifact(p) {
            return crate::fuzzdrive::replay_file("C15", "http_request", p);
        }
        crate::panics::VERBOSE.store(true, std::sync::atomic::Ordering::SeqCst);
        return runner::replay(&make(1), p);
    }
    let camp = make(ctx.workers);
    let stats = runner::run_campaign(&camp, ctx, if ctx.thorough() { 8000 } else { 1500 });
    let mut ev = Evidence::default();
    ev.level = "exploration".into();
    ev.rule = "sequences of 1-11 HTTP requests over raw TCP to the real warp router in front of the real tower (fresh tower per sequence, prepared with fresh / watched / responded / expired / out-of-slots users and, in the worlds with maximal subscriptions, a user holding 140 appointments; in 15% of the sequences bitcoind is flagged unreachable): valid bodies of the four endpoints mutated structurally (drop / null / retype / empty / odd-length / non-hex / well-formed hex of the right length that is not a valid value (a public key that is no curve point) / longer / shorter / huge / non-ASCII / extra / wrapped / duplicate key / padded to limit-2..limit+2 / trailing garbage / negative / float / 2^32), raw bytes, odd JSON texts, nesting up to 3000, every method, known and unknown paths; oracle: status in {200, 4xx, 503}, documented JSON error object for well-addressed requests, 200 bodies parse as the documented reply, database identical after every non-200, a reply always arrives. counters.requests = HTTP requests sent. Non-trivial = at least one request got past HTTP-level validation into the tower; distinct = distinct sets of (status, error_code) seen.".into();
    ev.assumptions = vec![
        "every request is syntactically valid HTTP/1.1 with a Content-Length header".into(),
        "the gRPC hop is tonic over loopback, as in production".into(),
    ];
    let mut stats = stats;
    let inconclusive = crate::fuzzdrive::attach(ctx, "C15", "http_request", &mut stats, &mut ev, 8, 4000, 2100);
    let code = runner::conclude(ctx, "C15", stats, ev, started);
    if code == 0 && inconclusive {
        2
    } else {
        code
    }
}

use crate::plugbox::*;
use crate::runner::Ctx;
use serde_json::json;
use std::time::Duration;

pub fn run(_ctx: &Ctx) -> i32 {
    let dir = crate::world::scratch_dir("plugsmoke");
    let _ = std::fs::remove_dir_all(&dir);
    let tower = FakeTower::start(port_for(60, 0), 0);
    let t0 = std::time::Instant::now();
    let mut p = Plugin::start(&dir, PluginOpts { max_retry_time: 3, auto_retry_delay: 4, max_retry_interval: 1 }, None).expect("start");
    println!("plugin up in {:?}", t0.elapsed());
    let r = p.call("registertower", json!([format!("{}@127.0.0.1:{}", tower.id_hex(), tower.port)]), Duration::from_secs(10));
    println!("registertower -> {r:?}");
    let r = p.call("commitment_revocation", revocation_params(1), Duration::from_secs(10));
    println!("revocation -> {r:?}");
    let r = p.call("listtowers", json!([]), Duration::from_secs(5));
    println!("listtowers -> {r:?}");
    let (_, _, loc) = revocation(1);
    let r = p.call("getappointmentreceipt", json!([tower.id_hex(), loc.to_string()]), Duration::from_secs(5));
    println!("receipt -> {r:?}");
    tower.set_up(false);
    let r = p.call("commitment_revocation", revocation_params(2), Duration::from_secs(10));
    println!("revocation(down) -> {r:?}");
    std::thread::sleep(Duration::from_millis(1500));
    let r = p.call("gettowerinfo", json!([tower.id_hex()]), Duration::from_secs(5));
    println!("gettowerinfo -> {}", serde_json::to_string(&r.unwrap_or_default()).unwrap().chars().take(400).collect::<String>());
    tower.set_up(true);
    std::thread::sleep(Duration::from_millis(4000));
    let r = p.call("listtowers", json!([]), Duration::from_secs(5));
    println!("listtowers -> {r:?}");
    for (t, l) in p.log_lines().iter().take(30) {
        println!("  log +{:?}: {l}", t.duration_since(p.started));
    }
    println!("served: {}", tower.served().len());
    println!("stderr: {}", p.stderr_text());
    let _ = std::fs::remove_dir_all(&dir);
    0
}

//! C17 — blobs decrypt only under their dispute id; signatures bind signer and message.
use std::time::Instant;

use bitcoin::absolute::LockTime;
use bitcoin::hashes::Hash;
use bitcoin::secp256k1::{PublicKey, Secp256k1, SecretKey};
use bitcoin::transaction::Version;
use bitcoin::{Amount, OutPoint, ScriptBuf, Sequence, Transaction, TxIn, TxOut, Txid, Witness};
use proptest::prelude::*;
use serde::{Deserialize, Serialize};
use serde_json::json;

use teos_common::appointment::Locator;
use teos_common::cryptography::{decrypt, encrypt, recover_pk, sign, verify};

use crate::evidence::Evidence;
use crate::runner::{self, Campaign, CaseReport, Ctx, Violation};

pub const ZB: &[u8] = b"ybndrfg8ejkmcpqxot1uwisza345h769";

pub fn zb_decode(s: &str) -> Option<Vec<u8>> {
    let mut bits: Vec<u8> = vec![];
    for c in s.bytes() {
        let v = ZB.iter().position(|x| *x == c.to_ascii_lowercase())? as u8;
        for i in (0..5).rev() {
            bits.push((v >> i) & 1);
        }
    }
    Some(bits.chunks(8).filter(|c| c.len() == 8).map(|c| c.iter().fold(0u8, |a, b| (a << 1) | b)).collect())
}
pub fn zb_encode(d: &[u8]) -> String {
    let mut bits: Vec<u8> = vec![];
    for b in d {
        for i in (0..8).rev() {
            bits.push((b >> i) & 1);
        }
    }
    while bits.len() % 5 != 0 {
        bits.push(0);
    }
    bits.chunks(5).map(|c| ZB[c.iter().fold(0usize, |a, b| (a << 1) | *b as usize)] as char).collect()
}

#[derive(Debug, Clone, Serialize, Deserialize)]
pub struct TxSpec {
    pub version: i32,
    pub locktime: u32,
    pub inputs: Vec<(Vec<u8>, u32, Vec<u8>, u32, Vec<Vec<u8>>)>,
    pub outputs: Vec<(u64, Vec<u8>)>,
}

impl TxSpec {
    pub fn build(&self) -> Transaction {
        Transaction {
            version: Version(self.version),
            lock_time: LockTime::from_consensus(self.locktime),
            input: self
                .inputs
                .iter()
                .map(|(txid, vout, script, seq, wit)| {
                    let mut b = [0u8; 32];
                    for (i, x) in txid.iter().take(32).enumerate() {
                        b[i] = *x;
                    }
                    TxIn {
                        previous_output: OutPoint::new(Txid::from_byte_array(b), *vout),
                        script_sig: ScriptBuf::from_bytes(script.clone()),
                        sequence: Sequence(*seq),
                        witness: Witness::from_slice(wit),
                    }
                })
                .collect(),
            output: self
                .outputs
                .iter()
                .map(|(v, s)| TxOut {
                    value: Amount::from_sat(*v % 21_000_000_0000_0000),
                    script_pubkey: ScriptBuf::from_bytes(s.clone()),
                })
                .collect(),
        }
    }
}

#[derive(Debug, Clone, Serialize, Deserialize)]
pub enum CtMut {
    BitFlip(u32),
    Truncate(u16),
    Extend(Vec<u8>),
}

#[derive(Debug, Clone, Serialize, Deserialize)]
pub enum KeyMut {
    Other(Vec<u8>),
    BitFlip(u8),
    /// same first 16 bytes (same locator), different tail
    SameLocator(Vec<u8>),
}

#[derive(Debug, Clone, Serialize, Deserialize)]
pub enum MsgMut {
    BitFlip(u32),
    Append(u8),
    DropLast,
    Prepend(u8),
}

#[derive(Debug, Clone, Serialize, Deserialize)]
pub enum SigMut {
    /// flip one bit of the decoded 65 bytes and re-encode
    BitFlip(u16),
    /// replace symbol at pos by one with another value
    Symbol(u8, u8),
    Insert(u8, u8),
    Delete(u8),
    NonAlphabet(u8),
    Truncate(u8),
    /// case change only: same signature value, counted, not judged
    Case(u8),
}

#[derive(Debug, Clone, Serialize, Deserialize)]
pub struct Case {
    pub tx: TxSpec,
    pub key: Vec<u8>,
    pub ct_mut: CtMut,
    pub key_mut: KeyMut,
    pub msg: Vec<u8>,
    pub sk: Vec<u8>,
    pub msg_mut: MsgMut,
    pub sig_mut: SigMut,
}

fn txid_from(v: &[u8]) -> Txid {
    let mut b = [0u8; 32];
    for (i, x) in v.iter().take(32).enumerate() {
        b[i] = *x;
    }
    Txid::from_byte_array(b)
}

fn sk_from(v: &[u8]) -> SecretKey {
    let mut b = [1u8; 32];
    for (i, x) in v.iter().take(32).enumerate() {
        b[i] = *x;
    }
    b[0] &= 0x7f; // below the group order
    if b.iter().all(|x| *x == 0) {
        b[31] = 1;
    }
    SecretKey::from_slice(&b).unwrap()
}

fn v(sig: &str, msg: String) -> Violation {
    Violation {
        property: "C17".into(),
        signature: sig.into(),
        message: msg,
    }
}

pub fn run_one(c: &Case) -> CaseReport {
    let mut rep = CaseReport::default();
    let tx = c.tx.build();
    let k = txid_from(&c.key);
    let ser_len = bitcoin::consensus::serialize(&tx).len();
    let size_class = match ser_len {
        0..=100 => "tx<=100B",
        101..=1000 => "tx<=1KB",
        1001..=10000 => "tx<=10KB",
        _ => "tx>10KB",
    };
    rep.classes.push(size_class.into());
    if tx.input.iter().any(|i| !i.witness.is_empty()) {
        rep.classes.push("tx-with-witness".into());
    }
    // --- encryption
    let ct = match encrypt(&tx, &k) {
        Ok(ct) => ct,
        Err(e) => {
            rep.violations.push(v("encrypt-failed", format!("encrypt failed on a well-formed transaction: {e:?}")));
            return rep;
        }
    };
    match decrypt(&ct, &k) {
        Ok(t2) if t2 == tx => {}
        Ok(_) => rep.violations.push(v("roundtrip-differs", "decrypt(encrypt(t,k),k) returned another transaction".into())),
        Err(e) => rep.violations.push(v("roundtrip-fails", format!("decrypt(encrypt(t,k),k) failed: {e:?}"))),
    }
    if Locator::new(k).to_vec() != k.to_byte_array()[..16].to_vec() {
        rep.violations.push(v("locator-not-prefix", "Locator::new(k) is not the first 16 bytes of k".into()));
    }
    let k2 = match &c.key_mut {
        KeyMut::Other(o) => txid_from(o),
        KeyMut::BitFlip(b) => {
            let mut x = k.to_byte_array();
            x[(*b as usize / 8) % 32] ^= 1 << (b % 8);
            Txid::from_byte_array(x)
        }
        KeyMut::SameLocator(tail) => {
            let mut x = k.to_byte_array();
            for (i, t) in tail.iter().take(16).enumerate() {
                x[16 + i] ^= *t;
            }
            Txid::from_byte_array(x)
        }
    };
    rep.classes.push(format!("key-mut:{}", match c.key_mut { KeyMut::Other(_) => "other", KeyMut::BitFlip(_) => "bitflip", KeyMut::SameLocator(_) => "same-locator" }));
    if k2 != k {
        if decrypt(&ct, &k2).is_ok() {
            rep.violations.push(v("decrypts-under-other-id", format!("ciphertext for {k} decrypts under {k2}")));
        }
    }
    let ct2: Vec<u8> = match &c.ct_mut {
        CtMut::BitFlip(p) => {
            let mut x = ct.clone();
            let pos = (*p as usize) % (x.len() * 8);
            x[pos / 8] ^= 1 << (pos % 8);
            x
        }
        CtMut::Truncate(n) => ct[..ct.len() - 1 - (*n as usize % ct.len())].to_vec(),
        CtMut::Extend(e) => {
            let mut x = ct.clone();
            x.extend(if e.is_empty() { vec![0u8] } else { e.clone() });
            x
        }
    };
    rep.classes.push(format!("ct-mut:{}", match c.ct_mut { CtMut::BitFlip(_) => "bitflip", CtMut::Truncate(_) => "truncate", CtMut::Extend(_) => "extend" }));
    if ct2 != ct && decrypt(&ct2, &k).is_ok() {
        rep.violations.push(v("modified-ciphertext-decrypts", format!("a modified ciphertext ({:?}) still decrypts", c.ct_mut)));
    }
    // --- signatures
    let sk = sk_from(&c.sk);
    let pk = PublicKey::from_secret_key(&Secp256k1::new(), &sk);
    let sig = sign(&c.msg, &sk);
    match recover_pk(&c.msg, &sig) {
        Ok(p) if p == pk => {}
        other => rep.violations.push(v("recover-wrong-signer", format!("recover_pk(m, sign(m,sk)) = {other:?}, signer is {pk}"))),
    }
    if !verify(&c.msg, &sig, &pk) {
        rep.violations.push(v("verify-rejects-own-signature", "verify(m, sign(m,sk), pk) is false".into()));
    }
    let mut m2 = c.msg.clone();
    match &c.msg_mut {
        MsgMut::BitFlip(p) => {
            if m2.is_empty() {
                m2.push(1);
            } else {
                let pos = (*p as usize) % (m2.len() * 8);
                m2[pos / 8] ^= 1 << (pos % 8);
            }
        }
        MsgMut::Append(b) => m2.push(*b),
        MsgMut::DropLast => {
            if m2.pop().is_none() {
                m2.push(0);
            }
        }
        MsgMut::Prepend(b) => m2.insert(0, *b),
    }
    if m2 != c.msg && verify(&m2, &sig, &pk) {
        rep.violations.push(v("altered-message-verifies", format!("signature over m verifies for an altered message ({:?})", c.msg_mut)));
    }
    let sb = sig.clone().into_bytes();
    let (s2, judged): (String, bool) = match &c.sig_mut {
        SigMut::BitFlip(p) => {
            let mut d = zb_decode(&sig).unwrap();
            let pos = (*p as usize) % (d.len() * 8);
            d[pos / 8] ^= 1 << (pos % 8);
            (zb_encode(&d), true)
        }
        SigMut::Symbol(pos, delta) => {
            let mut b = sb.clone();
            let p = *pos as usize % b.len();
            let idx = ZB.iter().position(|c| *c == b[p]).unwrap();
            b[p] = ZB[(idx + 1 + (*delta as usize % 31)) % 32];
            (String::from_utf8(b).unwrap(), true)
        }
        SigMut::Insert(pos, sym) => {
            let mut b = sb.clone();
            b.insert(*pos as usize % (b.len() + 1), ZB[*sym as usize % 32]);
            (String::from_utf8(b).unwrap(), true)
        }
        SigMut::Delete(pos) => {
            let mut b = sb.clone();
            b.remove(*pos as usize % b.len());
            (String::from_utf8(b).unwrap(), true)
        }
        SigMut::NonAlphabet(pos) => {
            let mut b = sb.clone();
            let p = *pos as usize % b.len();
            b[p] = b"l0v2!_ "[*pos as usize % 7];
            (String::from_utf8(b).unwrap(), true)
        }
        SigMut::Truncate(n) => (sig[..(*n as usize % sig.len())].to_string(), true),
        SigMut::Case(pos) => {
            let mut b = sb.clone();
            let p = *pos as usize % b.len();
            b[p] = b[p].to_ascii_uppercase();
            (String::from_utf8(b).unwrap(), false)
        }
    };
    rep.classes.push(format!(
        "sig-mut:{}",
        match c.sig_mut {
            SigMut::BitFlip(_) => "bitflip-decoded",
            SigMut::Symbol(..) => "symbol",
            SigMut::Insert(..) => "insert",
            SigMut::Delete(_) => "delete",
            SigMut::NonAlphabet(_) => "non-alphabet",
            SigMut::Truncate(_) => "truncate",
            SigMut::Case(_) => "case-only(not judged)",
        }
    ));
    if judged && s2 != sig && verify(&c.msg, &s2, &pk) {
        rep.violations.push(v("altered-signature-verifies", format!("an altered signature ({:?}) still verifies for the signer", c.sig_mut)));
    }
    rep.nontrivial = true;
    rep.key = format!("{}|{}|{}", rep.classes.join(","), ser_len, c.msg.len());
    rep.sample = Some(json!({"tx_bytes": ser_len, "inputs": tx.input.len(), "outputs": tx.output.len(), "key": hex::encode(&c.key), "ct_mut": format!("{:?}", c.ct_mut), "key_mut": format!("{:?}", c.key_mut), "msg_len": c.msg.len(), "msg_mut": format!("{:?}", c.msg_mut), "sig_mut": format!("{:?}", c.sig_mut)}));
    rep
}

fn bytes(max: usize) -> BoxedStrategy<Vec<u8>> {
    proptest::collection::vec(any::<u8>(), 0..max).boxed()
}

pub fn tx_strategy() -> BoxedStrategy<TxSpec> {
    let input = (
        proptest::collection::vec(any::<u8>(), 32..=32),
        any::<u32>(),
        prop_oneof![4 => bytes(110), 1 => bytes(3000)],
        any::<u32>(),
        proptest::collection::vec(prop_oneof![4 => bytes(80), 1 => bytes(1200)], 0..4),
    );
    let output = (any::<u64>(), prop_oneof![6 => bytes(40), 1 => bytes(5000)]);
    (
        prop_oneof![Just(1i32), Just(2i32), any::<i32>()],
        any::<u32>(),
        proptest::collection::vec(input, 1..20),
        proptest::collection::vec(output, 1..20),
    )
        .prop_map(|(version, locktime, inputs, outputs)| TxSpec { version, locktime, inputs, outputs })
        .boxed()
}

pub struct C17;
impl Campaign for C17 {
    type Case = Case;
    fn name(&self) -> &str {
        "C17"
    }
    fn strategy(&self) -> BoxedStrategy<Case> {
        let ct_mut = prop_oneof![
            3 => any::<u32>().prop_map(CtMut::BitFlip),
            1 => any::<u16>().prop_map(CtMut::Truncate),
            1 => bytes(20).prop_map(CtMut::Extend),
        ];
        let key_mut = prop_oneof![
            1 => proptest::collection::vec(any::<u8>(), 32..=32).prop_map(KeyMut::Other),
            2 => any::<u8>().prop_map(KeyMut::BitFlip),
            2 => proptest::collection::vec(1u8..=255, 1..=16).prop_map(KeyMut::SameLocator),
        ];
        let msg_mut = prop_oneof![
            2 => any::<u32>().prop_map(MsgMut::BitFlip),
            1 => any::<u8>().prop_map(MsgMut::Append),
            1 => Just(MsgMut::DropLast),
            1 => any::<u8>().prop_map(MsgMut::Prepend),
        ];
        let sig_mut = prop_oneof![
            4 => any::<u16>().prop_map(SigMut::BitFlip),
            3 => (any::<u8>(), any::<u8>()).prop_map(|(a, b)| SigMut::Symbol(a, b)),
            1 => (any::<u8>(), any::<u8>()).prop_map(|(a, b)| SigMut::Insert(a, b)),
            1 => any::<u8>().prop_map(SigMut::Delete),
            1 => any::<u8>().prop_map(SigMut::NonAlphabet),
            1 => any::<u8>().prop_map(SigMut::Truncate),
            1 => any::<u8>().prop_map(SigMut::Case),
        ];
        (
            tx_strategy(),
            proptest::collection::vec(any::<u8>(), 32..=32),
            ct_mut,
            key_mut,
            bytes(300),
            proptest::collection::vec(any::<u8>(), 32..=32),
            msg_mut,
            sig_mut,
        )
            .prop_map(|(tx, key, ct_mut, key_mut, msg, sk, msg_mut, sig_mut)| Case { tx, key, ct_mut, key_mut, msg, sk, msg_mut, sig_mut })
            .boxed()
    }
    fn run_case(&self, case: &Case, _w: usize) -> CaseReport {
        run_one(case)
    }
}

pub fn run(ctx: &Ctx) -> i32 {
    let started = Instant::now();
    if let Some(p) = &ctx.replay {
        if crate::fuzzdrive::is_artifact(p) {
            return crate::fuzzdrive::replay_file("C17", "crypto", p);
        }
        return runner::replay(&C17, p);
    }
    let stats = runner::run_campaign(&C17, ctx, if ctx.thorough() { 60_000 } else { 10_000 });
    let mut ev = Evidence::default();
    ev.level = "exploration".into();
    ev.rule = "random well-formed transactions (1-19 inputs/outputs, scripts and witnesses up to several KB) and random ids: round-trip identity; decryption under another id (random / one bit off / same 16-byte locator prefix) and of a modified ciphertext (bit flip, truncation, extension) must fail; locator = id[..16]; random messages and keys: recovery returns the signer, altered messages (bit flip, append, drop, prepend) and altered signatures (bit flip in the decoded 65 bytes, symbol replaced by another value, insert, delete, non-alphabet symbol, truncation) never verify. Every case is non-trivial; distinct = distinct (mutation classes, sizes).".into();
    ev.assumptions = vec![
        "case-only changes of a zbase32 signature are another spelling of the same value (lightning's decoder is case-insensitive): generated, counted, not judged".into(),
        "the (r, n-s) ECDSA twin is outside the stated mutation classes".into(),
        "transactions have at least one input".into(),
    ];
    let mut stats = stats;
    let inconclusive = crate::fuzzdrive::attach(ctx, "C17", "crypto", &mut stats, &mut ev, 8, 150000, 1024);
    let code = runner::conclude(ctx, "C17", stats, ev, started);
    if code == 0 && inconclusive {
        2
    } else {
        code
    }
}

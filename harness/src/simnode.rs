//! simnode — a small, deterministic, faithful-enough bitcoind.
//!
//! One object implements both interfaces the tower uses: `lightning_block_sync::BlockSource`
//! and `jsonrpc::client::Transport` (given to `bitcoincore_rpc::Client::from_jsonrpc`).
//! Everything the tower asks is logged (RPC log), and a fault script can make calls fail.

use std::collections::{BTreeMap, HashMap, HashSet};
use std::fmt;
use std::sync::{Arc, Mutex};

use bitcoin::absolute::LockTime;
use bitcoin::block::{Block, Header, Version as BlockVersion};
use bitcoin::consensus;
use bitcoin::hashes::Hash;
use bitcoin::merkle_tree::calculate_root;
use bitcoin::pow::Work;
use bitcoin::script::{Builder, ScriptBuf};
use bitcoin::transaction::Version as TxVersion;
use bitcoin::{Amount, BlockHash, OutPoint, Sequence, Transaction, TxIn, TxOut, Txid, Witness};

use bitcoincore_rpc::jsonrpc;
use lightning_block_sync::{
    AsyncBlockSourceResult, BlockData, BlockHeaderData, BlockSource, BlockSourceError,
};

pub const RPC_VERIFY_ERROR: i32 = -25;
pub const RPC_VERIFY_REJECTED: i32 = -26;
pub const RPC_VERIFY_ALREADY_IN_CHAIN: i32 = -27;
pub const RPC_INVALID_ADDRESS_OR_KEY: i32 = -5;
pub const RPC_DESERIALIZATION_ERROR: i32 = -22;

/// What the node answered to one call.
#[derive(Debug, Clone, PartialEq, Eq, serde::Serialize)]
pub enum Verdict {
    /// sendrawtransaction: accepted into the mempool (or was already there)
    Accepted,
    /// sendrawtransaction: rpc error code
    Error(i32),
    /// getrawtransaction: found in mempool (no blockhash)
    InMempool,
    /// getrawtransaction: found confirmed (txindex mode only)
    Confirmed,
    /// getrawtransaction: not found (-5)
    NotFound,
    /// the call failed at transport level (outage)
    TransportError,
    /// block-source call
    BlockSourceOk,
    BlockSourceErr,
}

#[derive(Debug, Clone, PartialEq, Eq, serde::Serialize)]
pub enum Call {
    SendRawTransaction(Txid),
    GetRawTransaction(Txid),
    GetBestBlock,
    GetHeader(BlockHash),
    GetBlock(BlockHash),
    /// markers written by the harness listeners / ops, not calls by the tower
    BlockBegin(BlockHash, u32),
    BlockEnd(BlockHash, u32),
    DisconnectBegin(BlockHash, u32),
    DisconnectEnd(BlockHash, u32),
}

#[derive(Debug, Clone, serde::Serialize)]
pub struct RpcEvent {
    pub seq: usize,
    pub thread: String,
    pub call: Call,
    pub verdict: Verdict,
}

#[derive(Debug, Clone)]
pub struct BlockEntry {
    pub block: Block,
    pub height: u32,
    pub chainwork: Work,
}

/// "from the k-th counted call on, every call fails until `recover_after_best_block_attempts`
/// further get_best_block attempts have been made"
#[derive(Debug, Clone, Default)]
pub struct FaultScript {
    /// global outage: starts when the call counter reaches this value
    pub outage_at_call: Option<usize>,
    /// number of failing get_best_block attempts after which the outage ends
    pub outage_polls: usize,
    /// how a failing RPC looks to the client: 0 = connection refused (socket error), 1 = the node hangs up before
    /// answering (request not processed), 2 = the node processes the request and hangs up before the reply is out
    pub kind: u8,
    /// single failures of get_block: (n-th get_block call counted from arming, persistent?)
    pub fail_get_block_nth: Option<(usize, bool)>,
    /// single failure of get_header
    pub fail_get_header_nth: Option<(usize, bool)>,
    /// a flapping node: a second outage (same length) starts this many calls after the first one ended
    pub second_outage_after: Option<usize>,
    // --- runtime
    pub in_outage: bool,
    pub failed_polls: usize,
    pub get_block_calls: usize,
    pub get_header_calls: usize,
    pub outage_started_at_seq: Option<usize>,
    pub outage_ended_at_seq: Option<usize>,
    /// calls that failed during the current outage
    pub failed_calls: usize,
    /// more than FLOOD_LIMIT calls failed within one outage: the caller retries without ever waiting. The outage is ended
    /// there so that the run comes to an end (and memory stays bounded); the check reports it.
    pub flooded: bool,
}

pub const FLOOD_LIMIT: usize = 3000;

pub struct NodeState {
    pub blocks: HashMap<BlockHash, BlockEntry>,
    /// active chain, index = height
    pub active: Vec<BlockHash>,
    pub mempool: Vec<Transaction>,
    /// txid -> block (active chain only)
    pub confirmed: HashMap<Txid, BlockHash>,
    /// outpoints spent by txs confirmed in the active chain
    pub spent: HashMap<OutPoint, Txid>,
    /// outpoints that exist "from before" (channel funding outputs)
    pub funded: HashSet<OutPoint>,
    /// policy rejections by txid -> rpc code
    pub policy: HashMap<Txid, i32>,
    pub txindex: bool,
    /// every transaction that ever was in the mempool or in a block of this node
    pub ever_known: HashSet<Txid>,
    pub log: Vec<RpcEvent>,
    pub calls: usize,
    pub fault: FaultScript,
    coinbase_counter: u64,
}

pub struct Node {
    pub st: Mutex<NodeState>,
    /// run once, outside the node's lock, right before the n-th block download (counted from arming) is answered: lets a
    /// harness act at a precise point inside a poll, e.g. between the disconnections and the connections of a reorg
    pub get_block_hook: Mutex<Option<(usize, Box<dyn FnMut() + Send>)>>,
}

thread_local! {
    pub static THREAD_ROLE: std::cell::RefCell<String> = std::cell::RefCell::new(String::from("main"));
}

pub fn set_thread_role(r: &str) {
    THREAD_ROLE.with(|t| *t.borrow_mut() = r.to_string());
}
fn thread_role() -> String {
    THREAD_ROLE.with(|t| t.borrow().clone())
}

fn coinbase(counter: u64, height: u32) -> Transaction {
    Transaction {
        version: TxVersion(2),
        lock_time: LockTime::ZERO,
        input: vec![TxIn {
            previous_output: OutPoint::null(),
            script_sig: Builder::new()
                .push_int(height as i64)
                .push_slice(counter.to_be_bytes())
                .into_script(),
            sequence: Sequence::MAX,
            witness: Witness::new(),
        }],
        output: vec![TxOut {
            value: Amount::from_sat(50_0000_0000),
            script_pubkey: Builder::new().push_int(1).into_script(),
        }],
    }
}

fn make_block(prev: BlockHash, time: u32, txdata: Vec<Transaction>) -> Block {
    let bits = bitcoin::Target::from_be_bytes([0xff; 32]).to_compact_lossy();
    let hashes = txdata.iter().map(|tx| tx.compute_txid().to_raw_hash());
    let mut header = Header {
        version: BlockVersion::from_consensus(0),
        prev_blockhash: prev,
        merkle_root: calculate_root(hashes).unwrap().into(),
        time,
        bits,
        nonce: 0,
    };
    while header.validate_pow(header.target()).is_err() {
        header.nonce += 1;
    }
    Block { header, txdata }
}

impl NodeState {
    pub fn tip_hash(&self) -> BlockHash {
        *self.active.last().unwrap()
    }
    pub fn tip_height(&self) -> u32 {
        (self.active.len() - 1) as u32
    }
    pub fn in_mempool(&self, txid: &Txid) -> bool {
        self.mempool.iter().any(|t| t.compute_txid() == *txid)
    }
    pub fn knows(&self, txid: &Txid) -> bool {
        self.in_mempool(txid) || self.confirmed.contains_key(txid)
    }
    fn log_event(&mut self, call: Call, verdict: Verdict) {
        let seq = self.log.len();
        self.log.push(RpcEvent {
            seq,
            thread: thread_role(),
            call,
            verdict,
        });
    }

    /// Fault gate. Returns true if this call must fail at transport level.
    fn gate(&mut self, is_best_block: bool) -> bool {
        self.calls += 1;
        if !self.fault.in_outage {
            if let Some(k) = self.fault.outage_at_call {
                if self.calls >= k {
                    self.fault.in_outage = true;
                    self.fault.outage_at_call = None;
                    self.fault.failed_polls = 0;
                    self.fault.failed_calls = 0;
                    self.fault.outage_started_at_seq = Some(self.log.len());
                }
            }
        }
        if self.fault.in_outage {
            if is_best_block {
                if self.fault.failed_polls >= self.fault.outage_polls {
                    self.fault.in_outage = false;
                    self.fault.outage_ended_at_seq = Some(self.log.len());
                    if let Some(m) = self.fault.second_outage_after.take() {
                        self.fault.outage_at_call = Some(self.calls + m);
                    }
                    return false;
                }
                self.fault.failed_polls += 1;
            }
            self.fault.failed_calls += 1;
            if self.fault.failed_calls > FLOOD_LIMIT {
                self.fault.flooded = true;
                self.fault.in_outage = false;
                self.fault.outage_ended_at_seq = Some(self.log.len());
                return false;
            }
            return true;
        }
        false
    }

    /// Is `tx` valid on top of the active chain + mempool? Returns the rpc error code if not.
    fn check_tx(&self, tx: &Transaction, against_mempool: bool) -> Result<(), i32> {
        let txid = tx.compute_txid();
        if self.confirmed.contains_key(&txid) {
            return Err(RPC_VERIFY_ALREADY_IN_CHAIN);
        }
        for inp in &tx.input {
            let op = inp.previous_output;
            if self.spent.contains_key(&op) {
                return Err(RPC_VERIFY_ERROR); // bad-txns-inputs-missingorspent
            }
            let exists = self.funded.contains(&op)
                || self
                    .confirmed
                    .contains_key(&op.txid)
                    .then(|| self.tx_by_id(&op.txid).map_or(false, |t| (op.vout as usize) < t.output.len()))
                    .unwrap_or(false)
                || (against_mempool
                    && self
                        .mempool
                        .iter()
                        .any(|t| t.compute_txid() == op.txid && (op.vout as usize) < t.output.len()));
            if !exists {
                return Err(RPC_VERIFY_ERROR);
            }
            if against_mempool {
                if self
                    .mempool
                    .iter()
                    .any(|t| t.compute_txid() != txid && t.input.iter().any(|i| i.previous_output == op))
                {
                    return Err(RPC_VERIFY_REJECTED); // txn-mempool-conflict
                }
            }
        }
        Ok(())
    }

    fn tx_by_id(&self, txid: &Txid) -> Option<&Transaction> {
        let bh = self.confirmed.get(txid)?;
        self.blocks[bh].block.txdata.iter().find(|t| t.compute_txid() == *txid)
    }

    pub fn send_raw_transaction(&mut self, tx: &Transaction) -> Verdict {
        let txid = tx.compute_txid();
        if self.confirmed.contains_key(&txid) {
            return Verdict::Error(RPC_VERIFY_ALREADY_IN_CHAIN);
        }
        if self.in_mempool(&txid) {
            return Verdict::Accepted;
        }
        if let Some(code) = self.policy.get(&txid) {
            return Verdict::Error(*code);
        }
        match self.check_tx(tx, true) {
            Ok(()) => {
                self.mempool.push(tx.clone());
                self.ever_known.insert(txid);
                Verdict::Accepted
            }
            Err(c) => Verdict::Error(c),
        }
    }

    /// Recomputes `confirmed` and `spent` for the current active chain.
    fn reindex(&mut self) {
        self.confirmed.clear();
        self.spent.clear();
        for bh in &self.active {
            let b = &self.blocks[bh].block;
            for tx in &b.txdata {
                self.confirmed.insert(tx.compute_txid(), *bh);
                for i in &tx.input {
                    if !i.previous_output.is_null() {
                        self.spent.insert(i.previous_output, tx.compute_txid());
                    }
                }
            }
        }
    }

    /// Drops from the mempool whatever is no longer valid given the active chain (confirmed,
    /// conflicting, or orphaned), keeping order.
    fn revalidate_mempool(&mut self) {
        let old = std::mem::take(&mut self.mempool);
        for tx in old {
            if self.check_tx(&tx, true).is_ok() {
                self.mempool.push(tx);
            }
        }
    }

    /// Builds a block on `prev` with the given candidate transactions (invalid ones given the
    /// chain ending in `prev` are skipped when `prev` is the active tip). Does not change the active chain.
    fn build_block_on(&mut self, prev: BlockHash, txs: Vec<Transaction>) -> BlockHash {
        let pe = &self.blocks[&prev];
        let height = pe.height + 1;
        let time = pe.block.header.time + 1;
        self.coinbase_counter += 1;
        let mut txdata = vec![coinbase(self.coinbase_counter, height)];
        txdata.extend(txs);
        let block = make_block(prev, time, txdata);
        let chainwork = pe.chainwork + block.header.work();
        let hash = block.block_hash();
        self.blocks.insert(
            hash,
            BlockEntry {
                block,
                height,
                chainwork,
            },
        );
        hash
    }

    /// Mines one block on the active tip. `include_mempool(i)` selects mempool txs; `extra` are
    /// transactions injected directly by the miner (validated; invalid ones are skipped).
    /// Returns the block hash and the txids actually included.
    pub fn mine(&mut self, take_mempool: &dyn Fn(usize, &Transaction) -> bool, extra: &[Transaction]) -> (BlockHash, Vec<Txid>) {
        let mut chosen: Vec<Transaction> = Vec::new();
        // candidate list: selected mempool txs in mempool order, then extras
        let mut cands: Vec<Transaction> = self
            .mempool
            .iter()
            .enumerate()
            .filter(|(i, t)| take_mempool(*i, t))
            .map(|(_, t)| t.clone())
            .collect();
        cands.extend(extra.iter().cloned());
        // validate sequentially against chain + already chosen
        let mut spent_here: HashSet<OutPoint> = HashSet::new();
        for tx in cands {
            let txid = tx.compute_txid();
            if self.confirmed.contains_key(&txid) || chosen.iter().any(|t| t.compute_txid() == txid) {
                continue;
            }
            let mut ok = true;
            for i in &tx.input {
                let op = i.previous_output;
                if self.spent.contains_key(&op) || spent_here.contains(&op) {
                    ok = false;
                    break;
                }
                let exists = self.funded.contains(&op)
                    || self.tx_by_id(&op.txid).map_or(false, |t| (op.vout as usize) < t.output.len())
                    || chosen
                        .iter()
                        .any(|t| t.compute_txid() == op.txid && (op.vout as usize) < t.output.len());
                if !exists {
                    ok = false;
                    break;
                }
            }
            if ok {
                for i in &tx.input {
                    spent_here.insert(i.previous_output);
                }
                chosen.push(tx);
            }
        }
        let ids: Vec<Txid> = chosen.iter().map(|t| t.compute_txid()).collect();
        self.ever_known.extend(ids.iter().cloned());
        let prev = self.tip_hash();
        let hash = self.build_block_on(prev, chosen);
        self.active.push(hash);
        // incremental index update
        let b = self.blocks[&hash].block.clone();
        for tx in &b.txdata {
            self.confirmed.insert(tx.compute_txid(), hash);
            for i in &tx.input {
                if !i.previous_output.is_null() {
                    self.spent.insert(i.previous_output, tx.compute_txid());
                }
            }
        }
        self.revalidate_mempool();
        (hash, ids)
    }

    /// Replaces the last `depth` blocks of the active chain by `new_blocks.len()` new ones whose
    /// contents are given (validated block by block). Disconnected transactions return to the
    /// mempool when still valid.
    pub fn reorg(&mut self, depth: usize, new_blocks: &[Vec<Transaction>], evict: bool) -> Vec<(BlockHash, Vec<Txid>)> {
        let depth = depth.min(self.active.len() - 1);
        let mut returned: Vec<Transaction> = Vec::new();
        for _ in 0..depth {
            let bh = self.active.pop().unwrap();
            let b = &self.blocks[&bh].block;
            // keep chain order: older blocks first
            let mut txs: Vec<Transaction> = b.txdata.iter().skip(1).cloned().collect();
            txs.extend(returned);
            returned = txs;
        }
        self.reindex();
        // disconnected txs go back to the mempool (in front of nothing: mempool order = old mempool then returned)
        // (unless the node lost them: `evict`)
        let mut pool = if evict { vec![] } else { returned };
        pool.extend(std::mem::take(&mut self.mempool));
        self.mempool = pool;
        self.revalidate_mempool();
        let mut out = Vec::new();
        for txs in new_blocks {
            let wanted: Vec<Txid> = txs.iter().map(|t| t.compute_txid()).collect();
            let r = self.mine(&|_, t| wanted.contains(&t.compute_txid()), txs);
            out.push(r);
        }
        out
    }
}

impl Node {
    /// A chain of `height` blocks (besides the genesis-like root), empty mempool.
    pub fn new(height: u32, txindex: bool) -> Arc<Node> {
        let root = make_block(BlockHash::all_zeros(), 1_600_000_000, vec![coinbase(0, 0)]);
        let root_hash = root.block_hash();
        let mut st = NodeState {
            blocks: HashMap::new(),
            active: vec![root_hash],
            mempool: vec![],
            confirmed: HashMap::new(),
            spent: HashMap::new(),
            funded: HashSet::new(),
            policy: HashMap::new(),
            txindex,
            ever_known: HashSet::new(),
            log: vec![],
            calls: 0,
            fault: FaultScript::default(),
            coinbase_counter: 0,
        };
        let work = root.header.work();
        st.blocks.insert(
            root_hash,
            BlockEntry {
                block: root,
                height: 0,
                chainwork: work,
            },
        );
        st.reindex();
        for _ in 0..height {
            st.mine(&|_, _| false, &[]);
        }
        Arc::new(Node { st: Mutex::new(st), get_block_hook: Mutex::new(None) })
    }

    pub fn lock(&self) -> std::sync::MutexGuard<'_, NodeState> {
        self.st.lock().unwrap_or_else(|e| e.into_inner())
    }

    pub fn mark(&self, call: Call) {
        self.lock().log_event(call, Verdict::BlockSourceOk);
    }

    pub fn log_len(&self) -> usize {
        self.lock().log.len()
    }

    pub fn log_since(&self, from: usize) -> Vec<RpcEvent> {
        self.lock().log[from..].to_vec()
    }

    pub fn header_data(st: &NodeState, hash: &BlockHash) -> Option<BlockHeaderData> {
        st.blocks.get(hash).map(|e| BlockHeaderData {
            header: e.block.header,
            height: e.height,
            chainwork: e.chainwork,
        })
    }
}

impl BlockSource for Node {
    fn get_header<'a>(&'a self, header_hash: &'a BlockHash, _height_hint: Option<u32>) -> AsyncBlockSourceResult<'a, BlockHeaderData> {
        Box::pin(async move {
            let mut st = self.lock();
            if st.gate(false) {
                st.log_event(Call::GetHeader(*header_hash), Verdict::TransportError);
                return Err(BlockSourceError::transient("connection refused"));
            }
            st.fault.get_header_calls += 1;
            if let Some((n, persistent)) = st.fault.fail_get_header_nth {
                if st.fault.get_header_calls == n {
                    st.fault.fail_get_header_nth = None;
                    st.log_event(Call::GetHeader(*header_hash), Verdict::BlockSourceErr);
                    return Err(if persistent {
                        BlockSourceError::persistent("injected header failure")
                    } else {
                        BlockSourceError::transient("injected header failure")
                    });
                }
            }
            match Node::header_data(&st, header_hash) {
                Some(h) => {
                    st.log_event(Call::GetHeader(*header_hash), Verdict::BlockSourceOk);
                    Ok(h)
                }
                None => {
                    st.log_event(Call::GetHeader(*header_hash), Verdict::BlockSourceErr);
                    Err(BlockSourceError::persistent("header not found"))
                }
            }
        })
    }

    fn get_block<'a>(&'a self, header_hash: &'a BlockHash) -> AsyncBlockSourceResult<'a, BlockData> {
        Box::pin(async move {
            {
                let due = {
                    let mut h = self.get_block_hook.lock().unwrap();
                    match h.as_mut() {
                        Some((n, _)) if *n <= 1 => h.take().map(|(_, f)| f),
                        Some((n, _)) => {
                            *n -= 1;
                            None
                        }
                        None => None,
                    }
                };
                if let Some(mut f) = due {
                    f();
                }
            }
            let mut st = self.lock();
            if st.gate(false) {
                st.log_event(Call::GetBlock(*header_hash), Verdict::TransportError);
                return Err(BlockSourceError::transient("connection refused"));
            }
            st.fault.get_block_calls += 1;
            if let Some((n, persistent)) = st.fault.fail_get_block_nth {
                if st.fault.get_block_calls == n {
                    st.fault.fail_get_block_nth = None;
                    st.log_event(Call::GetBlock(*header_hash), Verdict::BlockSourceErr);
                    return Err(if persistent {
                        BlockSourceError::persistent("injected block failure")
                    } else {
                        BlockSourceError::transient("injected block failure")
                    });
                }
            }
            match st.blocks.get(header_hash).map(|e| e.block.clone()) {
                Some(b) => {
                    st.log_event(Call::GetBlock(*header_hash), Verdict::BlockSourceOk);
                    Ok(BlockData::FullBlock(b))
                }
                None => {
                    st.log_event(Call::GetBlock(*header_hash), Verdict::BlockSourceErr);
                    Err(BlockSourceError::persistent("block not found"))
                }
            }
        })
    }

    fn get_best_block<'a>(&'a self) -> AsyncBlockSourceResult<'a, (BlockHash, Option<u32>)> {
        Box::pin(async move {
            let mut st = self.lock();
            if st.gate(true) {
                st.log_event(Call::GetBestBlock, Verdict::TransportError);
                return Err(BlockSourceError::transient("connection refused"));
            }
            st.log_event(Call::GetBestBlock, Verdict::BlockSourceOk);
            Ok((st.tip_hash(), Some(st.tip_height())))
        })
    }
}

/// The jsonrpc transport handed to bitcoincore_rpc.
pub struct NodeTransport(pub Arc<Node>);

fn transport_error(kind: u8) -> jsonrpc::Error {
    use jsonrpc::simple_http::Error as HttpError;
    let e = if kind == 0 {
        HttpError::SocketError(std::io::Error::new(std::io::ErrorKind::ConnectionRefused, "connection refused (simnode outage)"))
    } else {
        HttpError::HttpResponseTooShort { actual: 0, needed: 12 }
    };
    jsonrpc::Error::Transport(Box::new(e))
}

fn rpc_err(id: serde_json::Value, code: i32, msg: &str) -> jsonrpc::Response {
    jsonrpc::Response {
        result: None,
        error: Some(jsonrpc::error::RpcError {
            code,
            message: msg.to_string(),
            data: None,
        }),
        id,
        jsonrpc: Some("2.0".into()),
    }
}
fn rpc_ok(id: serde_json::Value, v: serde_json::Value) -> jsonrpc::Response {
    jsonrpc::Response {
        result: Some(serde_json::value::to_raw_value(&v).unwrap()),
        error: None,
        id,
        jsonrpc: Some("2.0".into()),
    }
}

impl jsonrpc::client::Transport for NodeTransport {
    fn send_request(&self, req: jsonrpc::Request) -> Result<jsonrpc::Response, jsonrpc::Error> {
        let params: Vec<serde_json::Value> = match req.params {
            Some(p) => serde_json::from_str(p.get()).unwrap_or_default(),
            None => vec![],
        };
        let id = req.id.clone();
        let mut st = self.0.lock();
        match req.method {
            "sendrawtransaction" => {
                let hexs = params.get(0).and_then(|v| v.as_str()).unwrap_or("");
                let tx: Result<Transaction, _> = hex::decode(hexs)
                    .map_err(|_| ())
                    .and_then(|b| consensus::deserialize(&b).map_err(|_| ()));
                let tx = match tx {
                    Ok(t) => t,
                    Err(_) => {
                        st.gate(false);
                        return Ok(rpc_err(id, RPC_DESERIALIZATION_ERROR, "TX decode failed"));
                    }
                };
                let txid = tx.compute_txid();
                if st.gate(false) {
                    let kind = st.fault.kind;
                    if kind == 2 {
                        // processed, but the reply never makes it
                        let _ = st.send_raw_transaction(&tx);
                    }
                    st.log_event(Call::SendRawTransaction(txid), Verdict::TransportError);
                    return Err(transport_error(kind));
                }
                drop(st);
                crate::faults::point("rpc:sendrawtransaction:pre");
                let mut st = self.0.lock();
                let v = st.send_raw_transaction(&tx);
                st.log_event(Call::SendRawTransaction(txid), v.clone());
                drop(st);
                crate::faults::point("rpc:sendrawtransaction:post");
                Ok(match v {
                    Verdict::Accepted => rpc_ok(id, serde_json::Value::String(txid.to_string())),
                    Verdict::Error(c) => rpc_err(
                        id,
                        c,
                        match c {
                            RPC_VERIFY_ALREADY_IN_CHAIN => "Transaction already in block chain",
                            RPC_VERIFY_REJECTED => "txn-mempool-conflict",
                            RPC_VERIFY_ERROR => "bad-txns-inputs-missingorspent",
                            _ => "rejected",
                        },
                    ),
                    _ => unreachable!(),
                })
            }
            "getrawtransaction" => {
                let txid: Txid = params
                    .get(0)
                    .and_then(|v| v.as_str())
                    .and_then(|s| s.parse().ok())
                    .unwrap_or(Txid::all_zeros());
                if st.gate(false) {
                    st.log_event(Call::GetRawTransaction(txid), Verdict::TransportError);
                    return Err(transport_error(st.fault.kind));
                }
                let verbose = params.get(1).map_or(false, |v| v.as_bool().unwrap_or(v.as_i64().unwrap_or(0) != 0));
                let (tx, blockhash) = if let Some(t) = st.mempool.iter().find(|t| t.compute_txid() == txid) {
                    (Some(t.clone()), None)
                } else if st.txindex {
                    match st.confirmed.get(&txid).cloned() {
                        Some(bh) => (st.tx_by_id(&txid).cloned(), Some(bh)),
                        None => (None, None),
                    }
                } else {
                    (None, None)
                };
                match tx {
                    None => {
                        st.log_event(Call::GetRawTransaction(txid), Verdict::NotFound);
                        Ok(rpc_err(
                            id,
                            RPC_INVALID_ADDRESS_OR_KEY,
                            "No such mempool transaction. Use -txindex or provide a block hash to enable blockchain transaction queries.",
                        ))
                    }
                    Some(tx) => {
                        let v = if blockhash.is_some() { Verdict::Confirmed } else { Verdict::InMempool };
                        st.log_event(Call::GetRawTransaction(txid), v);
                        let hexs = hex::encode(consensus::serialize(&tx));
                        if !verbose {
                            return Ok(rpc_ok(id, serde_json::Value::String(hexs)));
                        }
                        let mut o = serde_json::json!({
                            "hex": hexs, "txid": txid.to_string(), "hash": tx.compute_wtxid().to_string(),
                            "size": tx.total_size(), "vsize": tx.vsize(), "version": tx.version.0,
                            "locktime": 0, "vin": [], "vout": []
                        });
                        if let Some(bh) = blockhash {
                            o["blockhash"] = serde_json::Value::String(bh.to_string());
                            o["confirmations"] = serde_json::json!(1);
                        }
                        Ok(rpc_ok(id, o))
                    }
                }
            }
            "getblockcount" => {
                // the Carrier's own "is it back?" probe: like a poll, it marks the passing of time for the fault script
                if st.gate(true) {
                    return Err(transport_error(st.fault.kind));
                }
                Ok(rpc_ok(id, serde_json::json!(st.tip_height())))
            }
            "getblockchaininfo" => {
                if st.gate(false) {
                    return Err(transport_error(st.fault.kind));
                }
                let tip = st.tip_hash();
                Ok(rpc_ok(
                    id,
                    serde_json::json!({
                        "chain": "regtest", "blocks": st.tip_height(), "headers": st.tip_height(),
                        "bestblockhash": tip.to_string(), "difficulty": 0.0, "mediantime": 0,
                        "verificationprogress": 1.0, "initialblockdownload": false,
                        "chainwork": "00", "size_on_disk": 0, "pruned": false, "warnings": ""
                    }),
                ))
            }
            other => {
                st.gate(false);
                Ok(rpc_err(id, -32601, &format!("Method not found: {other}")))
            }
        }
    }

    fn send_batch(&self, reqs: &[jsonrpc::Request]) -> Result<Vec<jsonrpc::Response>, jsonrpc::Error> {
        let mut out = vec![];
        for r in reqs {
            let r2 = jsonrpc::Request {
                method: r.method,
                params: r.params,
                id: r.id.clone(),
                jsonrpc: r.jsonrpc,
            };
            out.push(self.send_request(r2)?);
        }
        Ok(out)
    }

    fn fmt_target(&self, f: &mut fmt::Formatter) -> fmt::Result {
        write!(f, "simnode")
    }
}

/// Deterministic transaction factory for the generated universes.
pub mod txs {
    use super::*;

    fn outpoint_from(tag: u8, a: u32, b: u32) -> OutPoint {
        let mut bytes = [0u8; 32];
        bytes[0] = tag;
        bytes[1..5].copy_from_slice(&a.to_be_bytes());
        bytes[5..9].copy_from_slice(&b.to_be_bytes());
        bytes[31] = 0x77;
        OutPoint::new(Txid::from_byte_array(bytes), 0)
    }

    /// The pre-existing funding outpoint of channel `c` (in universe `salt`).
    pub fn funding(salt: u32, c: u32) -> OutPoint {
        outpoint_from(0xF0, salt, c)
    }

    fn spend(op: OutPoint, n_out: usize, marker: &[u8], seq: u32) -> Transaction {
        Transaction {
            version: TxVersion(2),
            lock_time: LockTime::ZERO,
            input: vec![TxIn {
                previous_output: op,
                script_sig: ScriptBuf::new(),
                sequence: Sequence(seq),
                witness: Witness::new(),
            }],
            output: (0..n_out)
                .map(|i| TxOut {
                    value: Amount::from_sat(10_000 + i as u64),
                    script_pubkey: if i == n_out - 1 && !marker.is_empty() {
                        // data carrier: makes the tx (and its id) depend on `marker`
                        let mut v = vec![0x6a];
                        v.extend_from_slice(marker);
                        ScriptBuf::from_bytes(v)
                    } else {
                        Builder::new().push_int(1).into_script()
                    },
                })
                .collect(),
        }
    }

    /// Dispute (revoked commitment) of channel c, variant v (variants conflict with each other).
    pub fn dispute(salt: u32, c: u32, v: u32) -> Transaction {
        spend(funding(salt, c), 2, &[0xD1, v as u8], 0xffff_fff0 - v)
    }
    /// Penalty spending output 0 of the given dispute; `pad` bytes of ballast make the blob multi-slot.
    pub fn penalty(dispute: &Transaction, pad: usize, v: u32) -> Transaction {
        let mut marker = vec![0xAA, v as u8];
        marker.extend(std::iter::repeat(0x5a).take(pad));
        spend(OutPoint::new(dispute.compute_txid(), 0), 2, &marker, 0xffff_fffd)
    }
    /// A third party's spend of the same dispute output (conflicts with every penalty of it).
    pub fn conflict(dispute: &Transaction, v: u32) -> Transaction {
        spend(OutPoint::new(dispute.compute_txid(), 0), 2, &[0xCC, v as u8], 0xffff_fff1)
    }
    /// Unrelated transaction number n (spends its own funded outpoint).
    pub fn noise_outpoint(salt: u32, n: u32) -> OutPoint {
        outpoint_from(0xE0, salt, n)
    }
    pub fn noise(salt: u32, n: u32) -> Transaction {
        spend(noise_outpoint(salt, n), 1, &[0xEE], 0xffff_fff2)
    }
}

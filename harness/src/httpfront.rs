//! httpfront — the real warp router (teos::api::http::serve) in front of a gRPC service, on loopback ports.
//! The gRPC service is either a real tower's InternalAPI (C15) or a recording mock (C16).

use std::io::{Read, Write};
use std::net::{SocketAddr, TcpListener, TcpStream};
use std::sync::{Arc, Mutex};
use std::time::Duration;

use teos::protos::public_tower_services_server::{PublicTowerServices, PublicTowerServicesServer};
use teos_common::protos as msgs;
use tonic::transport::Server;
use tonic::{Request, Response, Status};

/// A free loopback port out of this process's own block (see plugbox::port_for): several check processes (and the
/// parallel libFuzzer processes of one check) never pick the same one between "found free" and "bound by warp".
pub fn free_port() -> u16 {
    static NEXT: std::sync::atomic::AtomicUsize = std::sync::atomic::AtomicUsize::new(0);
    let base = crate::plugbox::port_for(0, 0) as usize; // start of the block
    for _ in 0..400 {
        let k = NEXT.fetch_add(1, std::sync::atomic::Ordering::SeqCst) % 180;
        let port = (base + 800 + k) as u16;
        if TcpListener::bind(("127.0.0.1", port)).is_ok() {
            return port;
        }
    }
    let l = TcpListener::bind("127.0.0.1:0").unwrap();
    l.local_addr().unwrap().port()
}

pub struct Front {
    pub http: SocketAddr,
    pub grpc: SocketAddr,
    pub rt: tokio::runtime::Runtime,
    shutdown: triggered::Trigger,
}

impl Front {
    /// Starts `svc` as the public gRPC service and the real HTTP API in front of it.
    pub fn start<S: PublicTowerServices>(svc: S) -> Front {
        let rt = tokio::runtime::Builder::new_multi_thread().worker_threads(2).enable_all().build().unwrap();
        let (shutdown, signal) = triggered::trigger();
        let grpc: SocketAddr = format!("127.0.0.1:{}", free_port()).parse().unwrap();
        let http: SocketAddr = format!("127.0.0.1:{}", free_port()).parse().unwrap();
        let s1 = signal.clone();
        rt.spawn(async move {
            Server::builder().add_service(PublicTowerServicesServer::new(svc)).serve_with_shutdown(grpc, s1).await.unwrap();
        });
        let (ready, ready_signal) = triggered::trigger();
        let s2 = signal.clone();
        rt.spawn(teos::api::http::serve(http, grpc, ready, s2));
        rt.block_on(async {
            let _ = tokio::time::timeout(Duration::from_secs(20), ready_signal).await;
        });
        // wait until the HTTP port answers
        for _ in 0..200 {
            if TcpStream::connect_timeout(&http, Duration::from_millis(100)).is_ok() {
                break;
            }
            std::thread::sleep(Duration::from_millis(20));
        }
        Front { http, grpc, rt, shutdown }
    }
}

impl Drop for Front {
    fn drop(&mut self) {
        self.shutdown.trigger();
    }
}

#[derive(Debug, Clone)]
pub struct RawReply {
    pub status: u16,
    pub headers: String,
    pub body: Vec<u8>,
}

/// Sends one syntactically valid HTTP/1.1 request over a fresh connection and reads the whole reply.
/// Err = no (complete) reply within the watchdog.
pub fn raw_request(addr: SocketAddr, method: &str, target: &str, extra_headers: &[(String, String)], body: &[u8]) -> Result<RawReply, String> {
    let mut s = TcpStream::connect_timeout(&addr, Duration::from_secs(5)).map_err(|e| format!("connect: {e}"))?;
    s.set_read_timeout(Some(Duration::from_secs(10))).unwrap();
    s.set_write_timeout(Some(Duration::from_secs(10))).unwrap();
    let mut head = format!("{method} {target} HTTP/1.1\r\nHost: {addr}\r\nConnection: close\r\nContent-Length: {}\r\n", body.len());
    for (k, v) in extra_headers {
        head.push_str(&format!("{k}: {v}\r\n"));
    }
    head.push_str("\r\n");
    let mut msg = head.into_bytes();
    msg.extend_from_slice(body);
    // the server may answer (413) and close before the whole body is written: write errors are not fatal
    let _ = s.write_all(&msg);
    let mut buf = vec![];
    let mut tmp = [0u8; 8192];
    loop {
        match s.read(&mut tmp) {
            Ok(0) => break,
            Ok(n) => buf.extend_from_slice(&tmp[..n]),
            Err(e) => {
                if buf.is_empty() {
                    return Err(format!("no reply: {e}"));
                }
                break;
            }
        }
    }
    let pos = buf.windows(4).position(|w| w == b"\r\n\r\n").ok_or_else(|| format!("incomplete reply ({} bytes)", buf.len()))?;
    let head = String::from_utf8_lossy(&buf[..pos]).to_string();
    let status: u16 = head.split_whitespace().nth(1).and_then(|x| x.parse().ok()).ok_or("no status line")?;
    let mut body = buf[pos + 4..].to_vec();
    if head.to_ascii_lowercase().contains("transfer-encoding: chunked") {
        body = dechunk(&body);
    }
    Ok(RawReply { status, headers: head, body })
}

fn dechunk(b: &[u8]) -> Vec<u8> {
    let mut out = vec![];
    let mut i = 0;
    while i < b.len() {
        let nl = match b[i..].windows(2).position(|w| w == b"\r\n") {
            Some(p) => p,
            None => break,
        };
        let len = usize::from_str_radix(String::from_utf8_lossy(&b[i..i + nl]).trim(), 16).unwrap_or(0);
        i += nl + 2;
        if len == 0 || i + len > b.len() {
            break;
        }
        out.extend_from_slice(&b[i..i + len]);
        i += len + 2;
    }
    out
}

// ---------------------------------------------------------------------------------------------------
// recording mock of the tower's public gRPC service (C16)

#[derive(Debug, Clone)]
pub enum Received {
    Register(msgs::RegisterRequest),
    Add(msgs::AddAppointmentRequest),
    Get(msgs::GetAppointmentRequest),
    SubInfo(msgs::GetSubscriptionInfoRequest),
}

#[derive(Default)]
pub struct MockState {
    pub received: Vec<Received>,
    pub register_reply: Option<Result<msgs::RegisterResponse, (tonic::Code, String)>>,
    pub add_reply: Option<Result<msgs::AddAppointmentResponse, (tonic::Code, String)>>,
    pub get_reply: Option<Result<msgs::GetAppointmentResponse, (tonic::Code, String)>>,
    pub subinfo_reply: Option<Result<msgs::GetSubscriptionInfoResponse, (tonic::Code, String)>>,
}

#[derive(Clone, Default)]
pub struct MockTower(pub Arc<Mutex<MockState>>);

fn to_status<T>(r: Option<Result<T, (tonic::Code, String)>>) -> Result<Response<T>, Status> {
    match r {
        Some(Ok(v)) => Ok(Response::new(v)),
        Some(Err((c, m))) => Err(Status::new(c, m)),
        None => Err(Status::new(tonic::Code::Unimplemented, "no reply scripted")),
    }
}

#[tonic::async_trait]
impl PublicTowerServices for MockTower {
    async fn register(&self, request: Request<msgs::RegisterRequest>) -> Result<Response<msgs::RegisterResponse>, Status> {
        let mut st = self.0.lock().unwrap();
        st.received.push(Received::Register(request.into_inner()));
        to_status(st.register_reply.clone())
    }
    async fn add_appointment(&self, request: Request<msgs::AddAppointmentRequest>) -> Result<Response<msgs::AddAppointmentResponse>, Status> {
        let mut st = self.0.lock().unwrap();
        st.received.push(Received::Add(request.into_inner()));
        to_status(st.add_reply.clone())
    }
    async fn get_appointment(&self, request: Request<msgs::GetAppointmentRequest>) -> Result<Response<msgs::GetAppointmentResponse>, Status> {
        let mut st = self.0.lock().unwrap();
        st.received.push(Received::Get(request.into_inner()));
        to_status(st.get_reply.clone())
    }
    async fn get_subscription_info(&self, request: Request<msgs::GetSubscriptionInfoRequest>) -> Result<Response<msgs::GetSubscriptionInfoResponse>, Status> {
        let mut st = self.0.lock().unwrap();
        st.received.push(Received::SubInfo(request.into_inner()));
        to_status(st.subinfo_reply.clone())
    }
}

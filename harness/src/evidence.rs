//! Evidence file writer (schema: /root/.vp/EVIDENCE.schema.json).
use serde_json::{json, Value};
use std::collections::BTreeMap;

#[derive(Default)]
pub struct Evidence {
    pub property_id: String,
    pub tier: String,
    pub seed: u64,
    pub level: String,
    pub evaluations: u64,
    pub distinct_nontrivial: u64,
    pub rule: String,
    pub samples: Vec<Value>,
    pub classes: BTreeMap<String, u64>,
    pub extra: BTreeMap<String, Value>,
    pub assumptions: Vec<String>,
    pub wall_s: f64,
    pub violations: i64,
    pub exhaustive: Option<bool>,
}

impl Evidence {
    pub fn write(&self) {
        let mut cov = json!({
            "evaluations": self.evaluations,
            "distinct_nontrivial": self.distinct_nontrivial,
            "rule": self.rule,
            "samples": self.samples,
            "class_histogram": self.classes,
        });
        if let Some(e) = self.exhaustive {
            cov["exhaustive"] = json!(e);
        }
        for (k, v) in &self.extra {
            cov[k] = v.clone();
        }
        let v = json!({
            "property_id": self.property_id,
            "tier": self.tier,
            "seed": self.seed,
            "level": self.level,
            "coverage": cov,
            "assumptions": self.assumptions,
            "wall_s": self.wall_s,
            "violations": self.violations,
        });
        let dir = std::path::Path::new("/verif/evidence");
        let _ = std::fs::create_dir_all(dir);
        let p = dir.join(format!("{}.json", self.property_id));
        let tmp = dir.join(format!(".{}.json.tmp", self.property_id));
        std::fs::write(&tmp, serde_json::to_string_pretty(&v).unwrap()).unwrap();
        std::fs::rename(tmp, p).unwrap();
    }
}

//! Crash injection: the n-th crash point (durable write pre/post, node RPC pre/post) of the current
//! thread unwinds with a private payload; the harness then drops the whole tower (= process death:
//! open sqlite transactions roll back) and boots a new one on the same directory.
use std::cell::{Cell, RefCell};

use crate::panics::HarnessUnwind;

thread_local! {
    static COUNT: Cell<u64> = Cell::new(0);
    static ARM_AT: Cell<u64> = Cell::new(0);
    static ACTIVE: Cell<bool> = Cell::new(false);
    static TAGS: RefCell<Vec<&'static str>> = RefCell::new(Vec::new());
    static FIRED: Cell<Option<&'static str>> = Cell::new(None);
}

fn hook(tag: &'static str) {
    point(tag)
}

/// A crash point (also called directly by simnode for RPC pre/post).
pub fn point(tag: &'static str) {
    if !ACTIVE.with(|a| a.get()) {
        return;
    }
    let n = COUNT.with(|c| {
        c.set(c.get() + 1);
        c.get()
    });
    TAGS.with(|t| t.borrow_mut().push(tag));
    if ARM_AT.with(|a| a.get()) == n {
        ARM_AT.with(|a| a.set(0));
        FIRED.with(|f| f.set(Some(tag)));
        std::panic::resume_unwind(Box::new(HarnessUnwind("crash")));
    }
}

pub fn install() {
    teos_common::verif::set_crash_hook(Some(hook));
}

/// Starts counting crash points on this thread; the `arm_at`-th one (1-based, 0 = never) fires.
pub fn begin(arm_at: u64) {
    COUNT.with(|c| c.set(0));
    ARM_AT.with(|a| a.set(arm_at));
    TAGS.with(|t| t.borrow_mut().clear());
    FIRED.with(|f| f.set(None));
    ACTIVE.with(|a| a.set(true));
}

pub fn pause() {
    ACTIVE.with(|a| a.set(false));
}
pub fn resume() {
    ACTIVE.with(|a| a.set(true));
}

pub fn fired() -> Option<&'static str> {
    FIRED.with(|f| f.get())
}

pub fn end() -> (u64, Vec<&'static str>) {
    ACTIVE.with(|a| a.set(false));
    (COUNT.with(|c| c.get()), TAGS.with(|t| t.borrow().clone()))
}

pub const CRASH: &str = "HARNESS-CRASH";

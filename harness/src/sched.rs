//! sched — owning the schedule of the tower's threads.
//!
//! With the `teos::verif::sync` observer installed, every lock acquisition / condvar wait of the tower is an
//! event on the calling thread. In *controlled* mode N real threads share one run-token: a thread reaching
//! `Want(lock)` parks and the scheduler picks who runs next among the threads that are not waiting for a held
//! lock or an un-notified condvar; the sequence of picks is the schedule (a `Vec<u8>` of choice indices).
//! If nobody can run and not everybody is finished, that IS a deadlock.

use std::cell::Cell;
use std::collections::{BTreeMap, BTreeSet, HashMap};
use std::panic::{catch_unwind, AssertUnwindSafe};
use std::sync::{Arc, Condvar, Mutex};
use std::time::{Duration, Instant};

use teos::verif::sync::{Event, EventKind, Observer};

use crate::panics::HarnessUnwind;

thread_local! {
    /// (slot, logical thread id) of a thread that is under scheduler control
    static LOGICAL: Cell<Option<(usize, usize)>> = Cell::new(None);
}

/// One independent scheduler per slot (= per campaign worker), so that several controlled runs can go on at once.
pub const SLOTS: usize = 32;
struct Slot {
    state: Mutex<Option<State>>,
    cv: Condvar,
}
#[allow(clippy::declare_interior_mutable_const)]
const EMPTY_SLOT: Slot = Slot {
    state: Mutex::new(None),
    cv: Condvar::new(),
};
static SLOT: [Slot; SLOTS] = [EMPTY_SLOT; SLOTS];

#[derive(Debug, Clone, PartialEq, Eq)]
enum Status {
    NotStarted,
    Running,
    WantLock(usize),
    CondWait(usize, usize),
    /// sleeping (e.g. between two polls): runs again only when nobody else can
    Sleeping,
    /// waiting on a condvar with a timeout: woken by a notification, or - when nobody else can run - by its timeout
    TimedWait(usize, usize),
    /// woken up, can run
    Ready,
    Finished,
}

#[derive(Debug, Clone)]
pub struct Decision {
    /// number of threads that could have been chosen
    pub n_enabled: usize,
    pub chosen: usize,
    /// was the thread that had been running still able to run (choosing another one = a preemption)
    pub running_enabled: bool,
}

#[derive(Default)]
struct State {
    active: bool,
    threads: Vec<Status>,
    names: Vec<String>,
    owner: HashMap<usize, usize>,
    held: Vec<Vec<usize>>,
    current: Option<usize>,
    last_running: Option<usize>,
    choices: Vec<u8>,
    /// sequential mode: run the threads to completion one after the other in this order (no decisions)
    serial: Option<Vec<usize>>,
    pos: usize,
    trace: Vec<Decision>,
    abort: bool,
    deadlock: Option<String>,
    /// how often time had to "pass" (nobody runnable, a sleeper / timed waiter was woken) in this run
    time_passes: u32,
    lock_sites: HashMap<usize, String>,
    /// lock-order edges (site held -> site wanted) with the thread names that produced them
    order_edges: BTreeMap<(String, String), BTreeSet<String>>,
    events: u64,
    /// per thread: was the last timed wait ended by a notification
    notified: Vec<bool>,
    /// critical-region bookkeeping for the "non-trivial" rule: did a switch happen while the
    /// switched-out thread held a lock
    preempted_inside_region: u64,
}


/// Far above what any terminating run needs (a few polls per outage, a dozen idle polls of the chain monitor).
const TIME_PASSES_LIMIT: u32 = 1500;

/// Picks the next thread to run. Must be called with the state locked.
fn pick(st: &mut State) {
    let mut enabled: Vec<usize> = vec![];
    for (i, s) in st.threads.iter().enumerate() {
        match s {
            Status::NotStarted | Status::Ready => enabled.push(i),
            Status::WantLock(l) if !st.owner.contains_key(l) => enabled.push(i),
            _ => {}
        }
    }
    if enabled.is_empty() {
        // time passes only when nobody can run: wake a sleeper
        if let Some(t) = st.threads.iter().position(|s| matches!(s, Status::Sleeping | Status::TimedWait(..))) {
            st.time_passes += 1;
            if st.time_passes > TIME_PASSES_LIMIT {
                // a wait that is re-armed every time it runs out: the thread is as stuck as in a circular wait, it only
                // burns time instead of sleeping (decided structurally, like the circular wait below)
                let what = match st.threads[t] {
                    Status::TimedWait(cv, _) => format!("{} keeps going back to its timed wait on condvar {} ({} times) and nobody else can run", st.names[t], st.lock_sites.get(&cv).cloned().unwrap_or_default(), st.time_passes),
                    _ => format!("{} keeps going back to sleep ({} times) and nobody else can run", st.names[t], st.time_passes),
                };
                st.current = None;
                st.deadlock = Some(what);
                st.abort = true;
                return;
            }
            st.current = Some(t);
            st.last_running = Some(t);
            return;
        }
        st.current = None;
        if st.threads.iter().any(|s| *s != Status::Finished) {
            // nobody can run: circular wait (or a wait nobody will ever end)
            let mut desc = vec![];
            for (i, s) in st.threads.iter().enumerate() {
                match s {
                    Status::WantLock(l) => {
                        let o = st.owner.get(l).cloned();
                        desc.push(format!(
                            "{} wants {} held by {}",
                            st.names[i],
                            st.lock_sites.get(l).cloned().unwrap_or_default(),
                            o.map(|o| st.names[o].clone()).unwrap_or("?".into())
                        ));
                    }
                    Status::CondWait(cv, _) => desc.push(format!("{} waits on condvar {} that nobody left can notify", st.names[i], st.lock_sites.get(cv).cloned().unwrap_or_default())),
                    _ => {}
                }
            }
            st.deadlock = Some(desc.join("; "));
            st.abort = true;
        }
        return;
    }
    if let Some(order) = &st.serial {
        // the running thread goes on; when it is done, the next one of the given order starts
        let t = st.last_running.filter(|r| enabled.contains(r)).or_else(|| order.iter().cloned().find(|t| enabled.contains(t))).unwrap_or(enabled[0]);
        st.current = Some(t);
        st.last_running = Some(t);
        return;
    }
    // order: the thread that was running first (choice 0 = no preemption), then by id
    let running = st.last_running.filter(|r| enabled.contains(r));
    let mut order: Vec<usize> = vec![];
    if let Some(r) = running {
        order.push(r);
    }
    for e in &enabled {
        if Some(*e) != running {
            order.push(*e);
        }
    }
    let chosen_idx = if order.len() > 1 {
        let c = st.choices.get(st.pos).cloned().unwrap_or(0) as usize % order.len();
        st.pos += 1;
        st.trace.push(Decision {
            n_enabled: order.len(),
            chosen: c,
            running_enabled: running.is_some(),
        });
        c
    } else {
        0
    };
    let t = order[chosen_idx];
    if let (Some(r), true) = (running, chosen_idx != 0) {
        if !st.held[r].is_empty() {
            st.preempted_inside_region += 1;
        }
    }
    st.current = Some(t);
    st.last_running = Some(t);
}

fn block_until_chosen(slot: usize, tid: usize) {
    let mut g = SLOT[slot].state.lock().unwrap_or_else(|e| e.into_inner());
    loop {
        let st = match g.as_mut() {
            Some(s) => s,
            None => return,
        };
        if st.abort {
            drop(g);
            std::panic::resume_unwind(Box::new(HarnessUnwind("sched-abort")));
        }
        if st.current == Some(tid) {
            st.threads[tid] = Status::Running;
            return;
        }
        let (ng, to) = SLOT[slot].cv.wait_timeout(g, Duration::from_secs(30)).unwrap_or_else(|e| e.into_inner());
        g = ng;
        if to.timed_out() {
            if let Some(st) = g.as_mut() {
                st.abort = true;
                if st.deadlock.is_none() {
                    st.deadlock = Some("scheduler watchdog: a thread was parked for 30 s (harness problem, not a verdict)".into());
                }
            }
            SLOT[slot].cv.notify_all();
        }
    }
}

fn on_event(ev: Event) {
    let (slot, tid) = match LOGICAL.with(|l| l.get()) {
        Some(t) => t,
        None => return,
    };
    let mut must_block = false;
    {
        let mut g = SLOT[slot].state.lock().unwrap_or_else(|e| e.into_inner());
        let st = match g.as_mut() {
            Some(s) if s.active => s,
            _ => return,
        };
        st.events += 1;
        match ev.kind {
            EventKind::Want => {
                st.lock_sites.entry(ev.lock).or_insert_with(|| format!("{}:{}", ev.site.file().rsplit('/').next().unwrap_or(""), ev.site.line()));
                let wanted = st.lock_sites[&ev.lock].clone();
                for h in st.held[tid].clone() {
                    let hs = st.lock_sites.get(&h).cloned().unwrap_or_default();
                    let name = st.names[tid].clone();
                    st.order_edges.entry((hs, wanted.clone())).or_default().insert(name);
                }
                st.threads[tid] = Status::WantLock(ev.lock);
                pick(st);
                must_block = true;
            }
            EventKind::Acquired => {
                st.owner.insert(ev.lock, tid);
                st.held[tid].push(ev.lock);
            }
            EventKind::Released => {
                if st.owner.get(&ev.lock) == Some(&tid) {
                    st.owner.remove(&ev.lock);
                }
                st.held[tid].retain(|l| *l != ev.lock);
            }
            EventKind::WaitBegin => {
                st.lock_sites.entry(ev.cv).or_insert_with(|| format!("{}:{}", ev.site.file().rsplit('/').next().unwrap_or(""), ev.site.line()));
                st.threads[tid] = Status::CondWait(ev.cv, ev.lock);
                pick(st);
                must_block = true;
            }
            EventKind::TimedWaitBegin => {
                st.lock_sites.entry(ev.cv).or_insert_with(|| format!("{}:{}", ev.site.file().rsplit('/').next().unwrap_or(""), ev.site.line()));
                st.notified[tid] = false;
                st.threads[tid] = Status::TimedWait(ev.cv, ev.lock);
                pick(st);
                must_block = true;
            }
            EventKind::WaitEnd => {}
            EventKind::NotifyAll | EventKind::NotifyOne => {
                for s in st.threads.iter_mut() {
                    if let Status::CondWait(cv, l) = s {
                        if *cv == ev.cv {
                            *s = Status::WantLock(*l);
                        }
                    }
                }
                for i in 0..st.threads.len() {
                    if let Status::TimedWait(cv, _) = st.threads[i] {
                        if cv == ev.cv {
                            st.threads[i] = Status::Ready;
                            st.notified[i] = true;
                        }
                    }
                }
            }
        }
    }
    if must_block {
        SLOT[slot].cv.notify_all();
        block_until_chosen(slot, tid);
    }
}

/// A controlled thread gives way until no other thread can run (models sleeping between periodic actions).
pub fn sleep_point() {
    let (slot, tid) = match LOGICAL.with(|l| l.get()) {
        Some(t) => t,
        None => return,
    };
    {
        let mut g = SLOT[slot].state.lock().unwrap_or_else(|e| e.into_inner());
        if let Some(st) = g.as_mut() {
            st.threads[tid] = Status::Sleeping;
            pick(st);
        }
    }
    SLOT[slot].cv.notify_all();
    block_until_chosen(slot, tid);
}

/// Are all other controlled threads of this run finished?
pub fn others_finished() -> bool {
    let (slot, tid) = match LOGICAL.with(|l| l.get()) {
        Some(t) => t,
        None => return true,
    };
    let g = SLOT[slot].state.lock().unwrap_or_else(|e| e.into_inner());
    g.as_ref().map_or(true, |st| st.threads.iter().enumerate().all(|(i, s)| i == tid || *s == Status::Finished))
}

fn was_notified() -> bool {
    let (slot, tid) = match LOGICAL.with(|l| l.get()) {
        Some(t) => t,
        None => return false,
    };
    let g = SLOT[slot].state.lock().unwrap_or_else(|e| e.into_inner());
    g.as_ref().map_or(false, |st| st.notified[tid])
}

pub fn install() {
    teos::verif::sync::set_observer(Some(Observer {
        event: on_event,
        was_notified,
        virtual_condvars: true,
    }));
}

#[derive(Debug, Clone, Default)]
pub struct RunResult {
    pub trace: Vec<Decision>,
    pub deadlock: Option<String>,
    /// (thread name, panic string) of genuine panics inside thread bodies
    pub panics: Vec<(String, String)>,
    pub events: u64,
    pub order_edges: BTreeMap<(String, String), BTreeSet<String>>,
    pub preempted_inside_region: u64,
    pub hung: bool,
}

/// Runs the thread bodies under the given schedule. Bodies run on real threads, one at a time.
pub fn run<'a>(slot: usize, bodies: Vec<(String, Box<dyn FnOnce() + Send + 'a>)>, choices: &[u8]) -> RunResult {
    run_with(slot, bodies, choices, None)
}

/// `serial`: Some(order) runs the bodies one after the other in that order instead of following `choices`.
pub fn run_with<'a>(slot: usize, bodies: Vec<(String, Box<dyn FnOnce() + Send + 'a>)>, choices: &[u8], serial: Option<Vec<usize>>) -> RunResult {
    let slot = slot % SLOTS;
    let n = bodies.len();
    {
        let mut g = SLOT[slot].state.lock().unwrap_or_else(|e| e.into_inner());
        *g = Some(State {
            active: true,
            threads: vec![Status::NotStarted; n],
            names: bodies.iter().map(|b| b.0.clone()).collect(),
            held: vec![vec![]; n],
            notified: vec![false; n],
            choices: choices.to_vec(),
            serial,
            ..Default::default()
        });
    }
    let panics: Arc<Mutex<Vec<(String, String)>>> = Arc::new(Mutex::new(vec![]));
    let started = Instant::now();
    std::thread::scope(|scope| {
        let mut handles = vec![];
        for (tid, (name, body)) in bodies.into_iter().enumerate() {
            let panics = panics.clone();
            handles.push(scope.spawn(move || {
                LOGICAL.with(|l| l.set(Some((slot, tid))));
                crate::simnode::set_thread_role(&name);
                crate::panics::clear();
                let r = catch_unwind(AssertUnwindSafe(|| {
                    block_until_chosen(slot, tid);
                    body();
                }));
                if let Err(p) = r {
                    if p.downcast_ref::<HarnessUnwind>().is_none() {
                        let m = crate::panics::last_or(crate::towerbox::panic_message(p));
                        panics.lock().unwrap().push((name.clone(), m));
                    }
                }
                // finished: hand the token on
                {
                    let mut g = SLOT[slot].state.lock().unwrap_or_else(|e| e.into_inner());
                    if let Some(st) = g.as_mut() {
                        // locks still held by a dead thread stay held (that is what a poisoned std mutex would not do, but
                        // guards are dropped during unwinding, so `held` is empty here in practice)
                        for l in st.held[tid].clone() {
                            if st.owner.get(&l) == Some(&tid) {
                                st.owner.remove(&l);
                            }
                        }
                        st.held[tid].clear();
                        st.threads[tid] = Status::Finished;
                        if !st.abort {
                            pick(st);
                        }
                    }
                }
                SLOT[slot].cv.notify_all();
                LOGICAL.with(|l| l.set(None));
            }));
        }
        // kick off
        {
            let mut g = SLOT[slot].state.lock().unwrap_or_else(|e| e.into_inner());
            if let Some(st) = g.as_mut() {
                pick(st);
            }
        }
        SLOT[slot].cv.notify_all();
        for h in handles {
            let _ = h.join();
        }
    });
    let mut g = SLOT[slot].state.lock().unwrap_or_else(|e| e.into_inner());
    let st = g.take().unwrap();
    let hung = st.deadlock.as_ref().map_or(false, |d| d.starts_with("scheduler watchdog")) || started.elapsed() > Duration::from_secs(60);
    let panics = panics.lock().unwrap().clone();
    RunResult {
        trace: st.trace,
        deadlock: if hung { None } else { st.deadlock },
        panics,
        events: st.events,
        order_edges: st.order_edges,
        preempted_inside_region: st.preempted_inside_region,
        hung,
    }
}

/// Next schedule in depth-first order with at most `max_preemptions` preemptions; None when exhausted.
pub fn next_schedule(trace: &[Decision], max_preemptions: usize) -> Option<Vec<u8>> {
    let is_preempt = |d: &Decision, c: usize| d.running_enabled && c != 0;
    let mut k = trace.len();
    while k > 0 {
        k -= 1;
        let d = &trace[k];
        let used: usize = trace[..k].iter().filter(|x| is_preempt(x, x.chosen)).count();
        let mut next = d.chosen + 1;
        while next < d.n_enabled {
            if used + if is_preempt(d, next) { 1 } else { 0 } <= max_preemptions {
                let mut s: Vec<u8> = trace[..k].iter().map(|x| x.chosen as u8).collect();
                s.push(next as u8);
                return Some(s);
            }
            next += 1;
        }
    }
    None
}

pub fn preemptions(trace: &[Decision]) -> usize {
    trace.iter().filter(|d| d.running_enabled && d.chosen != 0).count()
}

//! Drives the libFuzzer targets under /verif/fuzz from a check:
//!  * quick tier: the committed seed inputs and saved regression inputs go through the target's function in-process
//!    (no libFuzzer, stable toolchain) - a replay tier;
//!  * thorough tier: the targets are rebuilt from /repo's working tree (cargo +nightly fuzz build) and run as several
//!    independent libFuzzer processes with fixed -seed / -runs on a scratch corpus initialised with the seeds.
//! A crash (oracle panic or any other panic / sanitizer report) becomes a violation whose replay file is the
//! saved input; `./check <id> --replay <that file>` runs it again in-process.

use std::path::{Path, PathBuf};
use std::process::{Command, Stdio};

use serde_json::{json, Value};

use crate::runner::{Ctx, Stats, Violation};

pub const FUZZ_DIR: &str = "/verif/fuzz";

fn files_in(dir: &str) -> Vec<PathBuf> {
    let mut v: Vec<PathBuf> = std::fs::read_dir(dir).map(|rd| rd.filter_map(|e| e.ok()).map(|e| e.path()).filter(|p| p.is_file()).collect()).unwrap_or_default();
    v.sort();
    v
}

fn violation_from(property: &str, text: &str) -> Violation {
    // "VERIF-ORACLE property=C17 signature=xyz :: message"
    if let Some(pos) = text.find("VERIF-ORACLE ") {
        let t = &text[pos + 13..];
        let t = t.lines().next().unwrap_or(t);
        let prop = t.split_whitespace().find_map(|w| w.strip_prefix("property=")).unwrap_or(property).to_string();
        let sig = t.split(" :: ").next().unwrap_or("").split("signature=").nth(1).unwrap_or("oracle").trim().to_string();
        let msg = t.split(" :: ").nth(1).unwrap_or(t).to_string();
        return Violation { property: prop, signature: format!("fuzz:{sig}"), message: msg };
    }
    let line = text.lines().find(|l| l.contains("panicked at") || l.contains("ERROR: AddressSanitizer") || l.contains("ERROR: libFuzzer")).unwrap_or("crash").to_string();
    let sig: String = line.chars().map(|c| if c.is_ascii_digit() { '#' } else { c }).take(90).collect();
    Violation { property: property.into(), signature: format!("fuzz-crash:{sig}"), message: text.lines().filter(|l| l.contains("panicked") || l.contains("ERROR")).take(3).collect::<Vec<_>>().join(" | ") }
}

/// Replay tier: seeds and saved regression inputs, in-process.
pub fn replay_tier(property: &str, target: &str, stats: &mut Stats) -> u64 {
    let mut n = 0;
    let mut files = files_in(&format!("{FUZZ_DIR}/seeds/{target}"));
    files.extend(files_in(&format!("/verif/regress/fuzz/{target}")));
    for f in files {
        let Ok(bytes) = std::fs::read(&f) else { continue };
        n += 1;
        if let Err(text) = crate::fuzzapi::replay_artifact(target, &bytes) {
            let v = violation_from(property, &text);
            stats.failures.push((v, json!({"fuzz_target": target, "artifact": f.to_string_lossy()})));
        }
    }
    n
}

/// `./check <id> --replay <file>` for a file that is a raw fuzz input.
pub fn replay_file(property: &str, target: &str, path: &str) -> i32 {
    let bytes = std::fs::read(path).expect("cannot read the replay file");
    match crate::fuzzapi::replay_artifact(target, &bytes) {
        Ok(()) => {
            println!("replay: no violation ({target}, {} bytes)", bytes.len());
            0
        }
        Err(text) => {
            let v = violation_from(property, &text);
            println!("VIOLATION property={} replay={path}", v.property);
            println!("  signature: {}", v.signature);
            println!("  {}", v.message);
            1
        }
    }
}

/// Is this replay file a raw fuzz input (not one of the JSON case files)?
pub fn is_artifact(path: &str) -> bool {
    match std::fs::read(path) {
        Ok(b) => serde_json::from_slice::<Value>(&b).map_or(true, |v| v.get("case").is_none()),
        Err(_) => false,
    }
}

pub struct FuzzOutcome {
    pub built: bool,
    pub evidence: Value,
    pub failures: Vec<(Violation, Value)>,
    pub inconclusive: Option<String>,
}

/// Thorough tier: rebuild and run `procs` libFuzzer processes of `target` with `runs` executions each.
pub fn campaign(ctx: &Ctx, property: &str, target: &str, procs: u32, runs: u64, max_len: u32) -> FuzzOutcome {
    let mut out = FuzzOutcome { built: false, evidence: json!({}), failures: vec![], inconclusive: None };
    // the lock file follows the harness's (which follows the repo's)
    let _ = std::fs::copy("/verif/harness/Cargo.lock", format!("{FUZZ_DIR}/Cargo.lock"));
    let build = Command::new("cargo")
        .args(["+nightly", "fuzz", "build", "--no-cfg-fuzzing", "--fuzz-dir", FUZZ_DIR, target])
        .env("CARGO_NET_OFFLINE", "true")
        .current_dir(FUZZ_DIR)
        .stdout(Stdio::piped())
        .stderr(Stdio::piped())
        .output();
    match build {
        Ok(o) if o.status.success() => out.built = true,
        Ok(o) => {
            let err = String::from_utf8_lossy(&o.stderr);
            out.inconclusive = Some(format!("cargo +nightly fuzz build {target} failed: {}", err.lines().filter(|l| l.starts_with("error")).take(3).collect::<Vec<_>>().join(" | ")));
            return out;
        }
        Err(e) => {
            out.inconclusive = Some(format!("cannot run cargo fuzz: {e}"));
            return out;
        }
    }
    let bin = format!("{FUZZ_DIR}/target/x86_64-unknown-linux-gnu/release/{target}");
    let art_dir = format!("/verif/replays/{property}");
    let _ = std::fs::create_dir_all(&art_dir);
    let mut children = vec![];
    for i in 0..procs {
        let corpus = format!("/dev/shm/verif-fuzz-{}-{target}-{i}", std::process::id());
        let _ = std::fs::remove_dir_all(&corpus);
        std::fs::create_dir_all(&corpus).unwrap();
        // libFuzzer: -seed=0 means "random"; remap
        let seed = (ctx.seed.wrapping_mul(1000).wrapping_add(i as u64) % 4_000_000_000).max(1);
        let child = Command::new(&bin)
            .args([format!("-runs={runs}"), format!("-seed={seed}"), format!("-max_len={max_len}"), "-len_control=0".into(), "-timeout=60".into(), "-rss_limit_mb=4096".into(), "-print_final_stats=1".into(), format!("-artifact_prefix={art_dir}/fuzz-{target}-"), corpus.clone(), format!("{FUZZ_DIR}/seeds/{target}")])
            .env("ASAN_OPTIONS", "detect_odr_violation=0:detect_leaks=0")
            .env("RUST_BACKTRACE", "0")
            .stdout(Stdio::null())
            .stderr(Stdio::piped())
            .spawn();
        match child {
            Ok(c) => children.push((i, seed, corpus, c)),
            Err(e) => {
                out.inconclusive = Some(format!("cannot start {bin}: {e}"));
                return out;
            }
        }
    }
    let mut total_runs = 0u64;
    let mut cov = 0u64;
    let mut ft = 0u64;
    let mut corpus_total = 0u64;
    let mut per_proc = vec![];
    for (i, seed, corpus, c) in children {
        let o = c.wait_with_output().expect("wait");
        let err = String::from_utf8_lossy(&o.stderr).to_string();
        let done: u64 = err.lines().rev().find_map(|l| l.strip_prefix("stat::number_of_executed_units: ").and_then(|x| x.trim().parse().ok())).or_else(|| err.lines().rev().find_map(|l| l.strip_prefix("Done ").and_then(|x| x.split_whitespace().next()).and_then(|x| x.parse().ok()))).unwrap_or(0);
        total_runs += done;
        // last status line: "#12345 DONE cov: 1234 ft: 5678 corp: 123/45Kb ..."
        if let Some(l) = err.lines().rev().find(|l| l.starts_with('#') && l.contains(" cov: ")) {
            let num = |k: &str| l.split(k).nth(1).and_then(|x| x.split_whitespace().next()).and_then(|x| x.parse::<u64>().ok()).unwrap_or(0);
            cov = cov.max(num(" cov: "));
            ft = ft.max(num(" ft: "));
            corpus_total += l.split(" corp: ").nth(1).and_then(|x| x.split('/').next()).and_then(|x| x.parse::<u64>().ok()).unwrap_or(0);
        }
        per_proc.push(json!({"proc": i, "seed": seed, "runs": done, "exit": o.status.code()}));
        if !o.status.success() {
            let artifact = err.lines().rev().find_map(|l| l.split("Test unit written to ").nth(1)).map(|s| s.trim().to_string());
            match artifact {
                Some(a) if err.contains("panicked at") || err.contains("ERROR: AddressSanitizer") || err.contains("deadly signal") => {
                    let v = violation_from(property, &err);
                    out.failures.push((v, json!({"fuzz_target": target, "artifact": a})));
                }
                Some(a) if err.contains("ERROR: libFuzzer: timeout") || err.contains("out-of-memory") => {
                    out.inconclusive = Some(format!("libFuzzer watchdog (timeout / rss limit) on {a}"));
                }
                _ => {
                    out.inconclusive = Some(format!("fuzz process {i} ended with {:?} without an artifact: {}", o.status.code(), err.lines().rev().take(3).collect::<Vec<_>>().join(" | ")));
                }
            }
        }
        let _ = std::fs::remove_dir_all(&corpus);
    }
    out.evidence = json!({"target": target, "engine": "libFuzzer (cargo-fuzz, address sanitizer), fixed -seed/-runs per process, scratch corpus seeded from /verif/fuzz/seeds", "processes": procs, "runs_per_process": runs, "executions": total_runs, "coverage_edges_max": cov, "features_max": ft, "corpus_entries_total": corpus_total, "per_process": per_proc});
    out
}

pub fn exists() -> bool {
    Path::new(FUZZ_DIR).join("Cargo.toml").exists()
}

/// What a check calls: the replay tier always, the libFuzzer campaign in the thorough tier.
/// Returns true when the fuzzing part ended inconclusive (the check then exits 2 unless it found a violation).
pub fn attach(ctx: &Ctx, property: &str, target: &str, stats: &mut Stats, ev: &mut crate::evidence::Evidence, procs: u32, runs: u64, max_len: u32) -> bool {
    if !exists() {
        return false;
    }
    let replayed = replay_tier(property, target, stats);
    ev.extra.insert("fuzz_inputs_replayed_in_process".into(), json!(replayed));
    if !ctx.thorough() || !stats.failures.is_empty() {
        return false;
    }
    let o = campaign(ctx, property, target, procs, runs, max_len);
    ev.extra.insert("fuzz".into(), o.evidence);
    for f in o.failures {
        stats.failures.push(f);
    }
    if let Some(why) = o.inconclusive {
        eprintln!("fuzzing part inconclusive: {why}");
        ev.extra.insert("fuzz_inconclusive".into(), json!(why));
        return stats.failures.is_empty();
    }
    false
}

//! vcheck <property> <quick|thorough>  |  vcheck <property> --replay <file>
#![allow(dead_code, unused_imports)]

use vharness::runner::Ctx;
use vharness::{faults, panics, props};

fn main() {
    let args: Vec<String> = std::env::args().collect();
    if args.len() < 3 {
        eprintln!("usage: vcheck <property> <quick|thorough> | vcheck <property> --replay <file>");
        std::process::exit(3);
    }
    let property = args[1].to_uppercase();
    let (tier, replay) = if args[2] == "--replay" {
        ("quick".to_string(), Some(args.get(3).expect("replay file").clone()))
    } else {
        (args[2].clone(), None)
    };
    let tier = std::env::var("VERIF_TIER").ok().filter(|t| t == "quick" || t == "thorough").unwrap_or(tier);
    let seed: u64 = std::env::var("VERIF_SEED").ok().and_then(|s| s.trim().parse::<i64>().ok()).map(|v| v as u64).unwrap_or(1);
    let workers: usize = std::env::var("VERIF_WORKERS").ok().and_then(|s| s.parse().ok()).unwrap_or(16);
    let ctx = Ctx { property: property.clone(), tier, seed, replay, workers };
    panics::install();
    vharness::relock::install();
    faults::install();
    let code = props::dispatch(&ctx);
    std::process::exit(code);
}

//! vharness — the engines and checks as a library (the vcheck binary and the libFuzzer targets under /verif/fuzz use it).
#![allow(dead_code, unused_imports)]
pub mod evidence;
pub mod faults;
pub mod httpfront;
pub mod known;
pub mod model;
pub mod ops;
pub mod world;
pub mod panics;
pub mod plain;
pub mod plugbox;
pub mod sched;
pub mod props;
pub mod relock;
pub mod runner;
pub mod simnode;
pub mod towerbox;
pub mod tsync;
pub mod fuzzapi;
pub mod fuzzdrive;

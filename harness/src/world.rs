//! Interpreter: runs a generated history on the real tower + simnode and on the reference model,
//! and compares them after every operation (assertion groups of C01, C02, C04, C06, C07, C08, C09, C11).

use std::collections::{BTreeMap, BTreeSet, HashMap};
use std::path::PathBuf;
use std::sync::atomic::{AtomicU64, Ordering};
use std::sync::Arc;

use bitcoin::consensus;
use bitcoin::hashes::{sha256, Hash};
use bitcoin::secp256k1::{PublicKey, Secp256k1, SecretKey};
use bitcoin::{Transaction, Txid};
use chacha20poly1305::aead::{Aead, NewAead};
use chacha20poly1305::{ChaCha20Poly1305, Key as ChaKey, Nonce};
use serde_json::json;

use teos_common::appointment::Appointment;
use crate::model::Locator;
use teos_common::cryptography;
use teos_common::receipts::{AppointmentReceipt, RegistrationReceipt};
use teos_common::UserId;

use crate::model::{self, spec_slots, GetOk, MAppt, MStatus, MTracker, Model, Reply, Segment, VBlock};
use crate::ops::*;
use crate::runner::{CaseReport, Violation};
use crate::simnode::{txs, Call, Node, RpcEvent, Verdict};
use crate::towerbox::{Snapshot, Tower};

pub const SALT: u32 = 1;
pub const START_HEIGHT: u32 = 106;
const ZBASE32: &[u8] = b"ybndrfg8ejkmcpqxot1uwisza345h769";

static DIR_COUNTER: AtomicU64 = AtomicU64::new(0);

pub fn scratch_dir(tag: &str) -> PathBuf {
    let n = DIR_COUNTER.fetch_add(1, Ordering::Relaxed);
    let base = if std::path::Path::new("/dev/shm").is_dir() { "/dev/shm" } else { "/tmp" };
    PathBuf::from(format!("{base}/verif-{}-{tag}-{n}", std::process::id()))
}

pub fn user_sk(i: u8) -> SecretKey {
    let mut b = [0x11u8; 32];
    b[0] = i + 1;
    b[31] = 0x42;
    SecretKey::from_slice(&b).unwrap()
}
pub fn user_pk(i: u8) -> PublicKey {
    PublicKey::from_secret_key(&Secp256k1::new(), &user_sk(i))
}

pub fn penalty_with_len(dispute: &Transaction, target_blob_len: usize, var: u32) -> Transaction {
    if target_blob_len == 0 {
        return txs::penalty(dispute, 0, var);
    }
    let want = target_blob_len.saturating_sub(16);
    let base = consensus::serialize(&txs::penalty(dispute, 0, var)).len();
    let mut pad = want.saturating_sub(base);
    for _ in 0..8 {
        let l = consensus::serialize(&txs::penalty(dispute, pad, var)).len();
        if l == want {
            break;
        }
        if l > want {
            pad -= (l - want).min(pad);
        } else {
            pad += want - l;
        }
    }
    txs::penalty(dispute, pad, var)
}

pub fn tx_of(r: TxRef) -> Transaction {
    match r {
        TxRef::Dispute(c, v) => txs::dispute(SALT, c as u32, v as u32),
        TxRef::Penalty(c, d, l, v) => penalty_with_len(&txs::dispute(SALT, c as u32, d as u32), VALID_LENS[l as usize % VALID_LENS.len()], v as u32),
        TxRef::Conflict(c, d) => txs::conflict(&txs::dispute(SALT, c as u32, d as u32), 0),
        TxRef::Noise(n) => txs::noise(SALT, n as u32),
    }
}

pub fn blob_of(kind: BlobKind, dispute: &Transaction) -> Vec<u8> {
    let dtxid = dispute.compute_txid();
    match kind {
        BlobKind::Valid { len, var } => cryptography::encrypt(&penalty_with_len(dispute, VALID_LENS[len as usize % VALID_LENS.len()], var as u32), &dtxid).unwrap(),
        BlobKind::Garbled { len } => {
            let n = GARBLED_LENS[len as usize % GARBLED_LENS.len()];
            (0..n).map(|i| (i as u32).wrapping_mul(2654435761).to_be_bytes()[0] ^ 0x5c).collect()
        }
        BlobKind::Empty => vec![],
        BlobKind::WrongKey => cryptography::encrypt(&txs::penalty(dispute, 0, 0), &txs::noise(SALT, 0).compute_txid()).unwrap(),
        BlobKind::NonTx => {
            let k = sha256::Hash::hash(dtxid.as_byte_array());
            let cypher = ChaCha20Poly1305::new(ChaKey::from_slice(k.as_byte_array()));
            cypher.encrypt(&Nonce::default(), b"this is not a bitcoin transaction".as_ref()).unwrap()
        }
        BlobKind::Foreign(n) => cryptography::encrypt(&txs::noise(SALT, n as u32), &dtxid).unwrap(),
    }
}

#[derive(Clone, Copy, PartialEq, Eq)]
pub enum ReqKind {
    Add,
    Get,
    SubInfo,
}

/// Builds the signature string for a request. `msg` is the message the tower defines for the request.
pub fn make_sig(kind: SigKind, req: ReqKind, msg: &[u8], u: u8, locator: &Locator) -> String {
    let good = cryptography::sign(msg, &user_sk(u));
    match kind {
        SigKind::Good => good,
        SigKind::By(v) => cryptography::sign(msg, &user_sk(v)),
        SigKind::OtherMessage(k) => {
            let other: Vec<u8> = match (req, k % 4) {
                (ReqKind::Add, 0) => format!("get appointment {locator}").into_bytes(),
                (ReqKind::Add, 1) => {
                    let mut m = msg.to_vec();
                    let n = m.len();
                    m[n - 1] ^= 1; // other to_self_delay
                    m
                }
                (ReqKind::Add, 2) => {
                    let mut m = msg.to_vec();
                    m.insert(16, 0); // blob one byte longer
                    m
                }
                (ReqKind::Add, _) => b"get subscription info".to_vec(),
                (ReqKind::Get, 0) => b"get subscription info".to_vec(),
                (ReqKind::Get, 1) => {
                    let mut l = locator.to_vec();
                    l[15] ^= 1;
                    format!("get appointment {}", hex::encode(l)).into_bytes()
                }
                (ReqKind::Get, 2) => locator.to_vec(),
                (ReqKind::Get, _) => format!("get appointment {locator} ").into_bytes(),
                (ReqKind::SubInfo, 0) => format!("get appointment {locator}").into_bytes(),
                (ReqKind::SubInfo, 1) => b"get subscription info ".to_vec(),
                (ReqKind::SubInfo, 2) => b"Get subscription info".to_vec(),
                (ReqKind::SubInfo, _) => b"".to_vec(),
            };
            cryptography::sign(&other, &user_sk(u))
        }
        SigKind::Truncated(n) => {
            let n = (n as usize).min(good.len() - 1);
            good[..n].to_string()
        }
        SigKind::Extended => format!("{good}y"),
        SigKind::Symbol(pos, delta) => {
            let mut b = good.into_bytes();
            let p = pos as usize % b.len();
            let idx = ZBASE32.iter().position(|c| *c == b[p]).unwrap_or(0);
            b[p] = ZBASE32[(idx + (delta as usize % 31) + 1) % 32];
            String::from_utf8(b).unwrap()
        }
        SigKind::NonZbase32 => {
            let mut b = good.into_bytes();
            b[3] = b'!';
            String::from_utf8(b).unwrap()
        }
        SigKind::Empty => String::new(),
        SigKind::UpperCase => good.to_uppercase(),
    }
}

/// Which registered user (index) does `sig` over `msg` recover to?
pub fn signer_of(msg: &[u8], sig: &str, users: u8) -> Option<usize> {
    let pk = lightning::util::message_signing::recover_pk(msg, sig).ok()?;
    (0..users).chain(std::iter::once(INTRUDER)).find(|u| user_pk(*u) == pk).map(|u| u as usize)
}

pub struct World {
    pub node: Arc<Node>,
    pub tower: Option<Tower>,
    pub model: Model,
    pub dir: PathBuf,
    pub hist_users: u8,
    pub report: CaseReport,
    pub dead: bool,
    pub classes: BTreeSet<String>,
    pub ops_done: usize,
    pub n_rpcs: u64,
    pub restarts: u64,
    pub reorgs: Vec<(u8, u8)>,
    pub rejected_with_effect_candidates: u64,
    pub tower_id: Option<Vec<u8>>,
    /// checks that only some campaigns want
    pub wire_audit: bool,
    pub last_add_was_empty: bool,
}

fn vblock(node: &Node, hash: &bitcoin::BlockHash) -> VBlock {
    let st = node.lock();
    let e = &st.blocks[hash];
    VBlock {
        hash: *hash,
        prev: e.block.header.prev_blockhash,
        height: e.height,
        txs: e.block.txdata.clone(),
    }
}

fn code_name(c: tonic::Code) -> &'static str {
    match c {
        tonic::Code::Unauthenticated => "Unauthenticated",
        tonic::Code::AlreadyExists => "AlreadyExists",
        tonic::Code::NotFound => "NotFound",
        tonic::Code::ResourceExhausted => "ResourceExhausted",
        tonic::Code::Unavailable => "Unavailable",
        tonic::Code::InvalidArgument => "InvalidArgument",
        _ => "Other",
    }
}

impl World {
    pub fn new(h: &History, tag: &str) -> World {
        let node = Node::new(START_HEIGHT, h.txindex);
        {
            let mut st = node.lock();
            for c in 0..8u32 {
                st.funded.insert(txs::funding(SALT, c));
            }
            for n in 0..8u32 {
                st.funded.insert(txs::noise_outpoint(SALT, n));
            }
        }
        let dir = scratch_dir(tag);
        let _ = std::fs::remove_dir_all(&dir);
        let view: Vec<VBlock> = {
            let hashes: Vec<_> = node.lock().active.clone();
            hashes[hashes.len() - 100..].iter().map(|h| vblock(&node, h)).collect()
        };
        let model = Model::new(h.cfg, view);
        let mut w = World {
            node: node.clone(),
            tower: None,
            model,
            dir,
            hist_users: h.users,
            report: CaseReport::default(),
            dead: false,
            classes: BTreeSet::new(),
            ops_done: 0,
            n_rpcs: 0,
            restarts: 0,
            reorgs: vec![],
            rejected_with_effect_candidates: 0,
            tower_id: None,
            wire_audit: true,
            last_add_was_empty: false,
        };
        match Tower::boot(node, &w.dir, h.cfg) {
            Ok(t) => {
                w.tower_id = Some(t.tower_pk.serialize().to_vec());
                w.tower = Some(t);
            }
            Err(e) => {
                w.fail("C03", "boot-failed", format!("first boot failed: {e:?}"));
            }
        }
        w
    }

    pub fn fail(&mut self, prop: &str, sig: &str, msg: String) {
        self.report.violations.push(Violation {
            property: prop.into(),
            signature: sig.into(),
            message: format!("op #{}: {msg}", self.ops_done),
        });
        self.dead = true;
    }

    fn panic_violation(&mut self, what: &str, p: String) {
        let sig = crate::panics::signature(&p);
        self.fail("C11", &sig, format!("{what} aborted: {p}"));
    }

    fn take_model_violations(&mut self) {
        let vs: Vec<Violation> = std::mem::take(&mut self.model.violations);
        for v in vs {
            self.fail(&v.property.clone(), &v.signature.clone(), v.message);
        }
    }

    fn tower(&self) -> &Tower {
        self.tower.as_ref().unwrap()
    }

    /// All sends left in a segment must be justified by the C02 rules.
    fn check_leftovers(&mut self, seg: &Segment, appts_before: &BTreeMap<model::Key, MAppt>, trackers_before: &BTreeMap<model::Key, MTracker>, reorged_before: &BTreeSet<model::Key>) {
        let left: Vec<RpcEvent> = seg.unused().into_iter().cloned().collect();
        if left.is_empty() {
            return;
        }
        // justified set
        let mut justified: BTreeSet<Txid> = BTreeSet::new();
        let mut by_loc: HashMap<Locator, Vec<Transaction>> = HashMap::new();
        for b in &self.model.view {
            for tx in &b.txs {
                by_loc.entry(Locator::new(tx.compute_txid())).or_default().push(tx.clone());
            }
        }
        let all_appts = appts_before.iter().chain(self.model.appts.iter());
        for (k, a) in all_appts {
            if !self.model.users.contains_key(&k.0) {
                continue; // owner removed
            }
            if let Some(ds) = by_loc.get(&k.1) {
                for d in ds {
                    if let Ok(p) = cryptography::decrypt(&a.blob, &d.compute_txid()) {
                        justified.insert(p.compute_txid());
                    }
                }
            }
        }
        for (k, t) in trackers_before.iter().chain(self.model.trackers.iter()) {
            if !self.model.users.contains_key(&k.0) {
                continue;
            }
            justified.insert(t.penalty.compute_txid());
            if reorged_before.contains(k) {
                justified.insert(t.dispute.compute_txid());
            }
        }
        for e in left {
            if let Call::SendRawTransaction(txid) = e.call {
                if !justified.contains(&txid) {
                    self.fail(
                        "C02",
                        "unjustified-submission",
                        format!("the tower submitted {txid} to the node, which no held, triggered, decryptable appointment of a present user (nor a reorged tracker) justifies"),
                    );
                    return;
                }
            }
        }
    }

    fn process_chain_events(&mut self, events: Vec<RpcEvent>) {
        if std::env::var("VERIF_DEBUG").is_ok() {
            for e in &events {
                match &e.call {
                    Call::GetHeader(_) | Call::GetBlock(_) | Call::GetBestBlock => {}
                    c => eprintln!("    log: {c:?} -> {:?}", e.verdict),
                }
            }
        }
        let mut i = 0;
        while i < events.len() {
            match events[i].call.clone() {
                Call::DisconnectBegin(hash, height) => {
                    let mut j = i + 1;
                    while j < events.len() && events[j].call != Call::DisconnectEnd(hash, height) {
                        j += 1;
                    }
                    let seg = Segment::new(events[i + 1..j.min(events.len())].to_vec());
                    if let Some(e) = seg.unused().first() {
                        if let Call::SendRawTransaction(t) = e.call {
                            self.fail("C02", "submission-during-disconnect", format!("tower submitted {t} while disconnecting a block"));
                        }
                    }
                    self.model.block_disconnected(hash, height);
                    self.classes.insert("disconnect".into());
                    i = j + 1;
                }
                Call::BlockBegin(hash, height) => {
                    let mut j = i + 1;
                    while j < events.len() && events[j].call != Call::BlockEnd(hash, height) {
                        j += 1;
                    }
                    let mut seg = Segment::new(events[i + 1..j.min(events.len())].to_vec());
                    self.n_rpcs += seg.events.len() as u64;
                    let ab = self.model.appts.clone();
                    let tb = self.model.trackers.clone();
                    let rb = self.model.reorged.clone();
                    let block = vblock(&self.node, &hash);
                    self.model.block_connected(block, &mut seg);
                    self.take_model_violations();
                    if self.dead {
                        return;
                    }
                    self.check_leftovers(&seg, &ab, &tb, &rb);
                    if self.dead {
                        return;
                    }
                    i = j + 1;
                }
                Call::SendRawTransaction(t) if events[i].verdict != Verdict::TransportError => {
                    self.fail("C02", "submission-outside-block-processing", format!("tower submitted {t} outside of any block/request handling"));
                    return;
                }
                _ => i += 1,
            }
        }
    }

    /// Compares the tower's sqlite file with the model. Returns false when a violation was recorded.
    fn compare_store(&mut self, op_desc: &str, other_user_op: Option<usize>) -> bool {
        let snap = self.tower().snapshot();
        if snap.fk_violations > 0 {
            self.fail("C03", "dangling-records", format!("{} foreign-key violations in the tower database", snap.fk_violations));
            return false;
        }
        // users
        let mut model_users: BTreeMap<Vec<u8>, (usize, (u32, u32, u32))> = BTreeMap::new();
        for (i, u) in &self.model.users {
            model_users.insert(user_pk(*i as u8).serialize().to_vec(), (*i, (u.avail, u.start, u.expiry)));
        }
        for (pk, (i, exp)) in &model_users {
            match snap.users.get(pk) {
                None => {
                    self.fail("C09", "user-missing", format!("after {op_desc}: user {i} should be registered {exp:?} but has no row"));
                    return false;
                }
                Some(got) => {
                    if got.0 != exp.0 {
                        // empty-blob corner: the code charges 0 slots where the property promises >= 1
                        let sig = if self.last_add_was_empty { "empty-blob-costs-no-slot" } else { "slots-on-disk-differ" };
                        self.fail("C07", sig, format!("after {op_desc}: user {i} has {} available slots on disk, expected {}", got.0, exp.0));
                        return false;
                    }
                    if got.1 != exp.1 || got.2 != exp.2 {
                        self.fail("C09", "subscription-window-differs", format!("after {op_desc}: user {i} has (start,expiry)=({},{}) on disk, expected ({},{})", got.1, got.2, exp.1, exp.2));
                        return false;
                    }
                }
            }
        }
        for pk in snap.users.keys() {
            if !model_users.contains_key(pk) {
                self.fail("C09", "user-not-purged", format!("after {op_desc}: user row {} exists but should have been removed (or never created)", hex::encode(pk)));
                return false;
            }
        }
        // appointments + trackers
        let mut exp_appts: BTreeMap<Vec<u8>, (model::Key, &MAppt)> = BTreeMap::new();
        for (k, a) in &self.model.appts {
            exp_appts.insert(model::uuid_of(&k.1, &user_pk(k.0 as u8)), (*k, a));
        }
        let mut exp_tr: BTreeMap<Vec<u8>, (model::Key, &MTracker)> = BTreeMap::new();
        for (k, t) in &self.model.trackers {
            exp_tr.insert(model::uuid_of(&k.1, &user_pk(k.0 as u8)), (*k, t));
        }
        let maybe_dropped: BTreeSet<Vec<u8>> = self.model.maybe_dropped.iter().map(|k| model::uuid_of(&k.1, &user_pk(k.0 as u8))).collect();
        let tracker_optional: BTreeSet<Vec<u8>> = self.model.tracker_optional.iter().map(|k| model::uuid_of(&k.1, &user_pk(k.0 as u8))).collect();
        let blame = |this: &World, k: &model::Key, default: &'static str| -> &'static str {
            if let Some((_, p)) = this.model.touched.iter().rev().find(|(kk, _)| kk == k) {
                return p;
            }
            if let Some(actor) = other_user_op {
                if actor != k.0 {
                    return "C06";
                }
            }
            default
        };
        let mut problem: Option<(String, String, String)> = None;
        for (uuid, (k, a)) in &exp_appts {
            if maybe_dropped.contains(uuid) && !snap.appointments.contains_key(uuid) {
                continue;
            }
            match snap.appointments.get(uuid) {
                None => {
                    problem = Some((blame(self, k, "C01").into(), "appointment-lost".into(), format!("after {op_desc}: appointment of user {} locator {} should be held but is gone", k.0, k.1)));
                    break;
                }
                Some(row) => {
                    if row.blob != a.blob || row.delay != a.delay || row.user_signature != a.sig || row.locator != k.1.to_vec() {
                        problem = Some(("C08".into(), "stored-appointment-differs".into(), format!("after {op_desc}: stored appointment of user {} locator {} is not the version last accepted", k.0, k.1)));
                        break;
                    }
                    if row.start_block != a.start_block {
                        problem = Some(("C08".into(), "stored-start-block-differs".into(), format!("after {op_desc}: start_block {} stored, {} expected", row.start_block, a.start_block)));
                        break;
                    }
                }
            }
        }
        if problem.is_none() {
            for (uuid, row) in &snap.appointments {
                if exp_appts.contains_key(uuid) {
                    continue;
                }
                // find the key for blame
                let owner = (0..self.hist_users).find(|u| user_pk(*u).serialize().to_vec() == row.user_id);
                let key = owner.map(|u| (u as usize, Locator::from_slice(&row.locator).unwrap()));
                let p = key.map(|k| blame(self, &k, "C01")).unwrap_or("C01");
                problem = Some((p.into(), "appointment-should-be-gone".into(), format!("after {op_desc}: appointment row {} (user {:?}, locator {}) is held but should have been dropped / never stored", hex::encode(uuid), owner, hex::encode(&row.locator))));
                break;
            }
        }
        if problem.is_none() {
            for (uuid, (k, t)) in &exp_tr {
                if maybe_dropped.contains(uuid) && !snap.appointments.contains_key(uuid) {
                    continue;
                }
                match snap.trackers.get(uuid) {
                    None => {
                        problem = Some((blame(self, k, "C01").into(), "tracker-missing".into(), format!("after {op_desc}: appointment of user {} locator {} should be dispute_responded but has no tracker", k.0, k.1)));
                        break;
                    }
                    Some(row) => {
                        if row.dispute_tx != consensus::serialize(&t.dispute) || row.penalty_tx != consensus::serialize(&t.penalty) {
                            problem = Some(("C01".into(), "tracker-has-wrong-transactions".into(), format!("after {op_desc}: tracker of user {} locator {} does not hold exactly the dispute and decrypted penalty", k.0, k.1)));
                            break;
                        }
                        match t.status {
                            MStatus::Conf(h) => {
                                if !row.confirmed || row.height != h {
                                    problem = Some(("C04".into(), if row.confirmed { "confirmed-at-wrong-height".into() } else { "confirmation-not-recorded".into() }, format!("after {op_desc}: penalty of user {} locator {} is confirmed at height {h} of the active chain, tower records confirmed={} height={}", k.0, k.1, row.confirmed, row.height)));
                                    break;
                                }
                            }
                            MStatus::Unconf => {
                                if row.confirmed {
                                    problem = Some(("C04".into(), "recorded-confirmed-but-not-in-active-chain".into(), format!("after {op_desc}: penalty of user {} locator {} is not in the active chain, tower records it confirmed at {}", k.0, k.1, row.height)));
                                    break;
                                }
                            }
                        }
                    }
                }
            }
        }
        if problem.is_none() {
            for uuid in snap.trackers.keys() {
                if tracker_optional.contains(uuid) || exp_tr.contains_key(uuid) {
                    continue;
                }
                problem = Some(("C02".into(), "tracker-without-justification".into(), format!("after {op_desc}: tracker {} exists although the model has no responded appointment for it", hex::encode(uuid))));
                break;
            }
        }
        if let Some((p, s, m)) = problem {
            self.fail(&p, &s, m);
            return false;
        }
        let exp_tr_keys: BTreeMap<Vec<u8>, (model::Key, ())> = exp_tr.iter().map(|(u, (k, _))| (u.clone(), (*k, ()))).collect();
        // adopt the outcomes the properties leave open
        let keys: Vec<model::Key> = self.model.maybe_dropped.iter().cloned().collect();
        for k in keys {
            let uuid = model::uuid_of(&k.1, &user_pk(k.0 as u8));
            if !snap.appointments.contains_key(&uuid) {
                if let Some(a) = self.model.appts.remove(&k) {
                    if let Some(u) = self.model.users.get_mut(&k.0) {
                        u.forfeited += spec_slots(a.blob.len()) as u64;
                    }
                }
                self.model.trackers.remove(&k);
            }
        }
        let keys: Vec<model::Key> = self.model.tracker_optional.iter().cloned().collect();
        for k in keys {
            let uuid = model::uuid_of(&k.1, &user_pk(k.0 as u8));
            if let (Some(row), false) = (snap.trackers.get(&uuid), self.model.trackers.contains_key(&k)) {
                let last = self.model.carrier_height;
                self.model.trackers.insert(
                    k,
                    MTracker {
                        dispute: consensus::deserialize(&row.dispute_tx).unwrap(),
                        penalty: consensus::deserialize(&row.penalty_tx).unwrap(),
                        status: if row.confirmed { MStatus::Conf(row.height) } else { MStatus::Unconf },
                        last_submit: last,
                        since: None,
                    },
                );
            }
        }
        // adopt the tower's private "in mempool since" clock (see MTracker::since)
        for (uuid, row) in &snap.trackers {
            if let Some((k, _)) = exp_tr_keys.get(uuid) {
                if let Some(t) = self.model.trackers.get_mut(k) {
                    t.since = if row.confirmed { None } else { Some(row.height) };
                }
            }
        }
        // C07 conservation on the model side (the model equals the store at this point)
        for (i, u) in &self.model.users {
            let held: u64 = self.model.appts.iter().filter(|(k, _)| k.0 == *i).map(|(_, a)| spec_slots(a.blob.len()) as u64).sum();
            if u.granted != u.avail as u64 + held + u.forfeited {
                let msg = format!("after {op_desc}: user {i}: granted {} != available {} + held {} + forfeited {}", u.granted, u.avail, held, u.forfeited);
                self.fail("C07", "conservation-broken", msg);
                return false;
            }
        }
        // C02: a freshly responded appointment's penalty must be known to the node (or be in the tower's view)
        let nt: Vec<model::Key> = self.model.new_trackers.clone();
        for k in nt {
            if let Some(t) = self.model.trackers.get(&k) {
                let ptxid = t.penalty.compute_txid();
                let known = self.node.lock().ever_known.contains(&ptxid);
                if !known {
                    self.fail("C02", "responded-without-penalty-at-node", format!("appointment of user {} reads dispute_responded but the node never had and was never given penalty {ptxid}", k.0));
                    return false;
                }
            }
        }
        true
    }

    /// Reads everything back through the public and private API and compares with the model.
    fn audit_wire(&mut self) {
        let users: Vec<usize> = self.model.users.keys().cloned().collect();
        // private API: user list
        match self.tower().get_users() {
            Err(p) => return self.panic_violation("get_users", p),
            Ok(list) => {
                let got: BTreeSet<Vec<u8>> = list.into_iter().collect();
                let exp: BTreeSet<Vec<u8>> = users.iter().map(|u| user_pk(*u as u8).serialize().to_vec()).collect();
                if got != exp {
                    return self.fail("C09", "user-list-differs-in-memory", format!("get_users reports {} users, {} expected", got.len(), exp.len()));
                }
            }
        }
        for u in users {
            let mu = self.model.users[&u].clone();
            let pk = user_pk(u as u8).serialize().to_vec();
            match self.tower().get_user(pk) {
                Err(p) => return self.panic_violation("get_user", p),
                Ok(None) => return self.fail("C09", "user-missing-in-memory", format!("get_user does not know user {u}")),
                Ok(Some(r)) => {
                    if r.available_slots != mu.avail {
                        return self.fail("C07", "slots-in-memory-differ", format!("user {u}: memory says {} slots, disk/model say {}", r.available_slots, mu.avail));
                    }
                    if r.subscription_expiry != mu.expiry {
                        return self.fail("C09", "expiry-in-memory-differs", format!("user {u}: memory says expiry {}, disk/model say {}", r.subscription_expiry, mu.expiry));
                    }
                    let exp: BTreeSet<Vec<u8>> = self.model.appts.keys().filter(|k| k.0 == u).map(|k| model::uuid_of(&k.1, &user_pk(u as u8))).collect();
                    let got: BTreeSet<Vec<u8>> = r.appointments.into_iter().collect();
                    if got != exp {
                        return self.fail("C06", "user-appointment-list-differs", format!("user {u}: private get_user lists {} appointments, {} expected", got.len(), exp.len()));
                    }
                }
            }
            if self.model.gk_height >= mu.expiry {
                continue;
            }
            let sig = cryptography::sign(b"get subscription info", &user_sk(u as u8));
            match self.tower().get_subscription_info(sig) {
                Err(p) => return self.panic_violation("get_subscription_info", p),
                Ok(Err(s)) => return self.fail("C06", "valid-subinfo-refused", format!("user {u} (valid until {}) got {:?} at height {}", mu.expiry, s.code(), self.model.gk_height)),
                Ok(Ok(r)) => {
                    if r.available_slots != mu.avail {
                        return self.fail("C07", "slots-on-wire-differ", format!("user {u}: told {} slots, has {}", r.available_slots, mu.avail));
                    }
                    if r.subscription_expiry != mu.expiry {
                        return self.fail("C09", "expiry-on-wire-differs", format!("user {u}: told expiry {}, has {}", r.subscription_expiry, mu.expiry));
                    }
                    let exp: BTreeSet<Vec<u8>> = self.model.appts.keys().filter(|k| k.0 == u).map(|k| k.1.to_vec()).collect();
                    let got: BTreeSet<Vec<u8>> = r.locators.into_iter().collect();
                    if got != exp {
                        return self.fail("C06", "locator-list-differs", format!("user {u}: get_subscription_info lists {} locators, {} expected (own appointments only)", got.len(), exp.len()));
                    }
                }
            }
            let keys: Vec<model::Key> = self.model.appts.keys().filter(|k| k.0 == u).cloned().collect();
            for k in keys {
                let msg = format!("get appointment {}", k.1);
                let sig = cryptography::sign(msg.as_bytes(), &user_sk(u as u8));
                let exp = self.model.get_appointment(Some(u), k.1);
                match self.tower().get_appointment(k.1.to_vec(), sig) {
                    Err(p) => return self.panic_violation("get_appointment", p),
                    Ok(got) => {
                        if let Some((p, s, m)) = compare_get(&exp, &got) {
                            return self.fail(p, s, format!("read-back of user {u} locator {}: {m}", k.1));
                        }
                    }
                }
            }
        }
        // totals
        match self.tower().get_tower_info() {
            Err(p) => self.panic_violation("get_tower_info", p),
            Ok(info) => {
                if Some(&info.tower_id) != self.tower_id.as_ref() {
                    return self.fail("C03", "tower-id-changed", "get_tower_info reports another tower id".into());
                }
                let n_tr = self.model.trackers.len() as u32;
                let n_ap = self.model.appts.len() as u32 - n_tr;
                if info.n_responder_trackers != n_tr || info.n_watcher_appointments != n_ap || info.n_registered_users != self.model.users.len() as u32 {
                    return self.fail("C01", "tower-info-counts-differ", format!("get_tower_info: users {} appts {} trackers {}; expected {} {} {}", info.n_registered_users, info.n_watcher_appointments, info.n_responder_trackers, self.model.users.len(), n_ap, n_tr));
                }
            }
        }
    }

}

/// Compares an expected get_appointment reply with the real one: (property, signature, message) on mismatch.
pub fn compare_get(
    exp: &Reply<GetOk>,
    got: &Result<teos_common::protos::GetAppointmentResponse, tonic::Status>,
) -> Option<(&'static str, &'static str, String)> {
    use teos_common::protos::appointment_data::AppointmentData as AD;
    match (exp, got) {
        (Reply::Err(code, needle), Err(s)) => {
            if code_name(s.code()) != *code {
                let p = if *code == "NotFound" { "C01" } else { "C06" };
                return Some((p, "get-wrong-error-kind", format!("expected {code}, got {:?} ({})", s.code(), s.message())));
            }
            if needle.starts_with("expired") && !s.message().contains(needle.as_str()) {
                return Some(("C09", "expiry-not-stated", format!("error does not state the expiry: {}", s.message())));
            }
            None
        }
        (Reply::Err(code, _), Ok(r)) => {
            let p = if *code == "NotFound" { "C01" } else if *code == "Unauthenticated" { "C06" } else { "C06" };
            Some((p, "get-succeeded-but-should-fail", format!("expected {code}, got a reply with status {}", r.status)))
        }
        (Reply::Ok(e), Err(s)) => {
            let p = match (e, s.code()) {
                (_, tonic::Code::Unauthenticated) => "C06",
                (GetOk::Tracker { .. }, _) => "C01",
                _ => "C08",
            };
            Some((p, "get-failed-but-should-succeed", format!("expected {}, got {:?} ({})", match e { GetOk::Tracker{..} => "dispute_responded", _ => "being_watched" }, s.code(), s.message())))
        }
        (Reply::Ok(e), Ok(r)) => {
            let data = r.appointment_data.as_ref().and_then(|d| d.appointment_data.as_ref());
            match (e, data) {
                (GetOk::Tracker { dispute_txid, penalty_txid, penalty_raw }, Some(AD::Tracker(t))) => {
                    if r.status != 2 {
                        return Some(("C01", "responded-status-wrong", format!("tracker data with status {}", r.status)));
                    }
                    if t.dispute_txid != dispute_txid.to_byte_array().to_vec() || t.penalty_txid != penalty_txid.to_byte_array().to_vec() || &t.penalty_rawtx != penalty_raw {
                        return Some(("C01", "responded-with-other-transactions", "dispute_responded does not report exactly the dispute and the decrypted penalty".into()));
                    }
                    None
                }
                (GetOk::Appointment { locator, blob, delay }, Some(AD::Appointment(a))) => {
                    if r.status != 1 {
                        return Some(("C08", "watched-status-wrong", format!("appointment data with status {}", r.status)));
                    }
                    if a.locator != locator.to_vec() || &a.encrypted_blob != blob || a.to_self_delay != *delay {
                        return Some(("C08", "read-back-differs", "the appointment read back is not byte-for-byte the version last accepted".into()));
                    }
                    None
                }
                (GetOk::Tracker { .. }, _) => Some(("C01", "not-reported-responded", format!("expected dispute_responded, got status {}", r.status))),
                (GetOk::Appointment { .. }, _) => Some(("C02", "reported-responded-without-response", format!("expected being_watched, got status {}", r.status))),
            }
        }
    }
}

impl World {
    fn node_events_since(&self, from: usize) -> Vec<RpcEvent> {
        self.node.log_since(from)
    }

    fn after_op(&mut self, desc: &str, actor: Option<usize>) {
        if self.dead {
            return;
        }
        self.take_model_violations();
        if self.dead {
            return;
        }
        if !self.compare_store(desc, actor) {
            return;
        }
        if self.wire_audit {
            self.audit_wire();
        }
    }

    fn do_poll(&mut self, desc: &str) {
        let from = self.node.log_len();
        let r = self.tower.as_mut().unwrap().poll();
        let events = self.node_events_since(from);
        if let Err(p) = r {
            // still feed the model what happened before the abort, for classification only
            return self.panic_violation("chain processing (poll)", p);
        }
        self.process_chain_events(events);
        if self.dead {
            return;
        }
        // without faults a poll brings the tower to the node's tip
        let node_tip = self.node.lock().tip_hash();
        if self.model.view.last().map(|b| b.hash) != Some(node_tip) {
            let mh = self.model.view.last().map(|b| b.height).unwrap_or(0);
            return self.fail("C03", "not-caught-up", format!("after {desc} the tower's processed tip is at height {mh} but the node's best block is {}", self.node.lock().tip_height()));
        }
        self.after_op(desc, None);
    }

    pub fn step(&mut self, op: &Op) {
        if self.dead {
            return;
        }
        self.model.begin_op();
        self.last_add_was_empty = false;
        match op {
            Op::Register { u } => {
                let exp = self.model.register(*u as usize);
                let got = self.tower().register(user_pk(*u).serialize().to_vec());
                match got {
                    Err(p) => return self.panic_violation("register", p),
                    Ok(got) => match (&exp, &got) {
                        (Reply::Ok((slots, start, expiry)), Ok(r)) => {
                            if r.available_slots != *slots {
                                return self.fail("C07", "register-slots-differ", format!("register(user {u}) told {} slots, expected {slots}", r.available_slots));
                            }
                            if r.subscription_start != *start || r.subscription_expiry != *expiry {
                                return self.fail("C09", "register-window-differs", format!("register(user {u}) told ({},{}) expected ({start},{expiry})", r.subscription_start, r.subscription_expiry));
                            }
                            let receipt = RegistrationReceipt::with_signature(UserId(user_pk(*u)), r.available_slots, r.subscription_start, r.subscription_expiry, r.subscription_signature.clone());
                            let tid = UserId(self.tower().tower_pk);
                            if !receipt.verify(&tid) || r.user_id != user_pk(*u).serialize().to_vec() {
                                return self.fail("C08", "registration-receipt-does-not-verify", format!("register(user {u}): receipt signature does not verify under the tower id over the returned fields"));
                            }
                        }
                        (Reply::Err(code, _), Err(s)) if code_name(s.code()) == *code => {}
                        _ => {
                            return self.fail("C09", "register-outcome-differs", format!("register(user {u}): expected {exp:?}, got {:?}", got.as_ref().map(|r| (r.available_slots, r.subscription_start, r.subscription_expiry)).map_err(|s| s.code())));
                        }
                    },
                }
                self.after_op(&format!("register(user {u})"), Some(*u as usize));
            }
            Op::Add { u, chan, dvar, blob, delay, sig } => {
                let dispute = txs::dispute(SALT, *chan as u32, *dvar as u32);
                let locator = Locator::new(dispute.compute_txid());
                let blob_bytes = blob_of(*blob, &dispute);
                self.last_add_was_empty = blob_bytes.is_empty();
                let appt = Appointment::new(locator.real(), blob_bytes.clone(), *delay);
                let msg = appt.to_vec();
                let sigs = make_sig(*sig, ReqKind::Add, &msg, *u, &locator);
                let signer = signer_of(&msg, &sigs, self.hist_users);
                let from = self.node.log_len();
                let before = self.tower().snapshot();
                let got = self.tower().add_appointment(locator.to_vec(), blob_bytes.clone(), *delay, sigs.clone());
                let mut seg = Segment::new(self.node_events_since(from));
                self.n_rpcs += seg.events.len() as u64;
                let ab = self.model.appts.clone();
                let tb = self.model.trackers.clone();
                let rb = self.model.reorged.clone();
                let exp = self.model.add_appointment(signer, locator, &blob_bytes, *delay, &sigs, &mut seg);
                let got = match got {
                    Err(p) => return self.panic_violation("add_appointment", p),
                    Ok(g) => g,
                };
                let desc = format!("add_appointment(user {u}, chan {chan}/{dvar}, {blob:?}, sig {sig:?})");
                match (&exp, &got) {
                    (Reply::Ok(e), Ok(r)) => {
                        let receipt = AppointmentReceipt::with_signature(sigs.clone(), r.start_block, r.signature.clone());
                        if !receipt.verify(&UserId(self.tower().tower_pk)) {
                            return self.fail("C08", "appointment-receipt-does-not-verify", format!("{desc}: receipt does not verify under the tower id over (user signature, start_block)"));
                        }
                        if r.start_block != e.start_block {
                            return self.fail("C08", "receipt-start-block-wrong", format!("{desc}: start_block {} but the tower's height is {}", r.start_block, e.start_block));
                        }
                        if r.locator != locator.to_vec() {
                            return self.fail("C08", "receipt-locator-wrong", format!("{desc}: reply names another locator"));
                        }
                        if r.available_slots != e.avail {
                            let sig = if blob_bytes.is_empty() { "empty-blob-costs-no-slot" } else { "add-slots-differ" };
                            return self.fail("C07", sig, format!("{desc}: told {} slots left, expected {}", r.available_slots, e.avail));
                        }
                        if r.subscription_expiry != e.expiry {
                            return self.fail("C09", "add-expiry-differs", format!("{desc}: told expiry {}, expected {}", r.subscription_expiry, e.expiry));
                        }
                    }
                    (Reply::Err(code, needle), Err(s)) => {
                        if code_name(s.code()) != *code {
                            let p = if *code == "AlreadyExists" || s.code() == tonic::Code::AlreadyExists { "C01" } else { "C06" };
                            return self.fail(p, "add-wrong-error-kind", format!("{desc}: expected {code}, got {:?} ({})", s.code(), s.message()));
                        }
                        if needle.starts_with("expired") && !s.message().contains(needle.as_str()) {
                            return self.fail("C09", "expiry-not-stated", format!("{desc}: error does not state the expiry: {}", s.message()));
                        }
                        // a refused request changes nothing
                        let after = self.tower().snapshot();
                        if after != before {
                            let p = if needle.starts_with("expired") { "C09" } else if *code == "AlreadyExists" { "C07" } else { "C06" };
                            return self.fail(p, "refused-request-changed-state", format!("{desc}: refused with {code} but the database changed"));
                        }
                    }
                    (Reply::Ok(_), Err(s)) => {
                        let p = match s.code() {
                            tonic::Code::Unauthenticated if s.message().contains("expired") => "C09",
                            tonic::Code::Unauthenticated => "C06",
                            tonic::Code::AlreadyExists => "C01",
                            _ => "C06",
                        };
                        return self.fail(p, "valid-add-refused", format!("{desc}: should be accepted, got {:?} ({})", s.code(), s.message()));
                    }
                    (Reply::Err(code, needle), Ok(_)) => {
                        let p = if needle.starts_with("expired") { "C09" } else if *code == "AlreadyExists" { "C01" } else if signer.is_some() && self.model.users.contains_key(&signer.unwrap()) { "C07" } else { "C06" };
                        return self.fail(p, "add-accepted-but-should-be-refused", format!("{desc}: should fail with {code} ({needle}) but was accepted"));
                    }
                }
                self.take_model_violations();
                if self.dead {
                    return;
                }
                self.check_leftovers(&seg, &ab, &tb, &rb);
                self.after_op(&desc, signer);
            }
            Op::Get { u, chan, dvar, sig } => {
                let dispute = txs::dispute(SALT, *chan as u32, *dvar as u32);
                let locator = Locator::new(dispute.compute_txid());
                let msg = format!("get appointment {locator}").into_bytes();
                let sigs = make_sig(*sig, ReqKind::Get, &msg, *u, &locator);
                let signer = signer_of(&msg, &sigs, self.hist_users);
                let before = self.tower().snapshot();
                let from = self.node.log_len();
                let got = self.tower().get_appointment(locator.to_vec(), sigs);
                let exp = self.model.get_appointment(signer, locator);
                let got = match got {
                    Err(p) => return self.panic_violation("get_appointment", p),
                    Ok(g) => g,
                };
                if let Some((p, s, m)) = compare_get(&exp, &got) {
                    return self.fail(p, s, format!("get_appointment(user {u}, chan {chan}/{dvar}, sig {sig:?}): {m}"));
                }
                if self.tower().snapshot() != before || self.node.log_len() != from {
                    return self.fail("C06", "read-request-changed-state", "get_appointment changed the database or talked to the node".into());
                }
            }
            Op::SubInfo { u, sig } => {
                let msg = b"get subscription info".to_vec();
                let sigs = make_sig(*sig, ReqKind::SubInfo, &msg, *u, &Locator::new(txs::dispute(SALT, 0, 0).compute_txid()));
                let signer = signer_of(&msg, &sigs, self.hist_users);
                let before = self.tower().snapshot();
                let got = self.tower().get_subscription_info(sigs);
                let exp = self.model.get_subscription_info(signer);
                let got = match got {
                    Err(p) => return self.panic_violation("get_subscription_info", p),
                    Ok(g) => g,
                };
                let desc = format!("get_subscription_info(user {u}, sig {sig:?})");
                match (&exp, &got) {
                    (Reply::Ok((avail, expiry, locs)), Ok(r)) => {
                        if r.available_slots != *avail {
                            return self.fail("C07", "subinfo-slots-differ", format!("{desc}: told {} expected {avail}", r.available_slots));
                        }
                        if r.subscription_expiry != *expiry {
                            return self.fail("C09", "subinfo-expiry-differs", format!("{desc}: told {} expected {expiry}", r.subscription_expiry));
                        }
                        let got: BTreeSet<Vec<u8>> = r.locators.iter().cloned().collect();
                        let exp: BTreeSet<Vec<u8>> = locs.iter().map(|l| l.to_vec()).collect();
                        if got != exp {
                            return self.fail("C06", "locator-list-differs", format!("{desc}: lists {} locators, expected {}", got.len(), exp.len()));
                        }
                    }
                    (Reply::Err(code, needle), Err(s)) => {
                        if code_name(s.code()) != *code {
                            return self.fail("C06", "subinfo-wrong-error-kind", format!("{desc}: expected {code} got {:?}", s.code()));
                        }
                        if needle.starts_with("expired") && !s.message().contains(needle.as_str()) {
                            return self.fail("C09", "expiry-not-stated", format!("{desc}: error does not state the expiry: {}", s.message()));
                        }
                    }
                    (Reply::Ok(_), Err(s)) => {
                        let p = if s.message().contains("expired") { "C09" } else { "C06" };
                        return self.fail(p, "valid-subinfo-refused", format!("{desc}: should succeed, got {:?} ({})", s.code(), s.message()));
                    }
                    (Reply::Err(code, needle), Ok(_)) => {
                        let p = if needle.starts_with("expired") { "C09" } else { "C06" };
                        return self.fail(p, "subinfo-answered-but-should-be-refused", format!("{desc}: should fail with {code} but was answered"));
                    }
                }
                if self.tower().snapshot() != before {
                    return self.fail("C06", "read-request-changed-state", "get_subscription_info changed the database".into());
                }
            }
            Op::Broadcast(r) => {
                let tx = tx_of(*r);
                let _ = self.node.lock().send_raw_transaction(&tx);
            }
            Op::Mine { take, extra } => {
                let extra: Vec<Transaction> = extra.iter().map(|r| tx_of(*r)).collect();
                self.mine_one(*take, &extra);
            }
            Op::MineMany { n, take } => {
                for _ in 0..*n {
                    self.mine_one(*take, &[]);
                }
                if *n >= 100 {
                    self.classes.insert("growth>=100-in-one-op".into());
                }
            }
            Op::Reorg { depth, extra, first, later_at, later, evict } => {
                let depth = (*depth as usize).min(self.node.lock().active.len().saturating_sub(3));
                let n_new = depth + *extra as usize;
                let mut contents: Vec<Vec<Transaction>> = vec![vec![]; n_new];
                contents[0] = first.iter().map(|r| tx_of(*r)).collect();
                let at = (1 + *later_at as usize).min(n_new - 1);
                contents[at].extend(later.iter().map(|r| tx_of(*r)));
                self.node.lock().reorg(depth, &contents, *evict);
                self.reorgs.push((depth as u8, *extra));
                self.classes.insert(format!("reorg-depth-{}", match depth { 0 => "0", 1 => "1", 2..=3 => "2-3", 4..=6 => "4-6", 7..=12 => "7-12", _ => ">12" }));
            }
            Op::Poll => self.do_poll("poll"),
            Op::PollFail { nth, persistent } => {
                {
                    let mut st = self.node.lock();
                    st.fault.get_block_calls = 0;
                    st.fault.fail_get_block_nth = Some((*nth as usize, *persistent));
                }
                let from = self.node.log_len();
                let r = self.tower.as_mut().unwrap().poll();
                self.node.lock().fault.fail_get_block_nth = None;
                let events = self.node_events_since(from);
                if let Err(p) = r {
                    return self.panic_violation("chain processing (poll with a failed block download)", p);
                }
                self.process_chain_events(events);
                if self.dead {
                    return;
                }
                // the tower may legitimately be behind the node now; a transient failure flags the node unreachable
                // until the next successful poll, so no API read-back here
                self.classes.insert("poll-with-failed-block-download".into());
                self.take_model_violations();
                if !self.dead {
                    self.compare_store("poll with a failed block download", None);
                }
                // make the tower usable again for the following operations (what the next periodic poll does)
                if !self.dead {
                    self.do_poll("poll after a failed block download");
                }
            }
            Op::SetPolicy { tx, code } => {
                let txid = tx_of(*tx).compute_txid();
                let mut st = self.node.lock();
                match code {
                    Some(c) => {
                        st.policy.insert(txid, *c);
                    }
                    None => {
                        st.policy.remove(&txid);
                    }
                }
            }
            Op::Restart => {
                self.restarts += 1;
                let cfg = self.model.cfg;
                self.tower = None;
                let from = self.node.log_len();
                match Tower::boot(self.node.clone(), &self.dir, cfg) {
                    Err(e) => return self.fail("C03", "restart-failed", format!("restart on the same data directory failed: {e:?}")),
                    Ok(t) => {
                        if Some(t.tower_pk.serialize().to_vec()) != self.tower_id {
                            self.tower = Some(t);
                            return self.fail("C03", "tower-id-changed", "the tower came back with another id".into());
                        }
                        self.tower = Some(t);
                    }
                }
                let view = self.model.view.clone();
                self.model.reset_view(view);
                let events = self.node_events_since(from);
                self.process_chain_events(events);
                if self.dead {
                    return;
                }
                let node_tip = self.node.lock().tip_hash();
                if self.model.view.last().map(|b| b.hash) != Some(node_tip) {
                    let mh = self.model.view.last().map(|b| b.height).unwrap_or(0);
                    return self.fail("C03", "blocks-skipped-over-restart", format!("after the restart the tower never processed the blocks above height {mh} (node is at {})", self.node.lock().tip_height()));
                }
                self.after_op("restart", None);
            }
        }
    }

    fn mine_one(&mut self, take: Take, extra: &[Transaction]) {
        let tracked: BTreeSet<Txid> = self.model.trackers.values().map(|t| t.penalty.compute_txid()).collect();
        let mut st = self.node.lock();
        match take {
            Take::All => st.mine(&|_, _| true, extra),
            Take::None => st.mine(&|_, _| false, extra),
            Take::NoPenalties => st.mine(&|_, t| !tracked.contains(&t.compute_txid()), extra),
        };
    }

    pub fn finish(mut self) -> CaseReport {
        // final catch-up and audit, so that every history ends on a compared state
        if !self.dead && self.tower.is_some() {
            self.model.begin_op();
            self.do_poll("final poll");
        }
        let s = self.model.stats.clone();
        let mut classes = std::mem::take(&mut self.classes);
        let mut add = |c: bool, name: &str| {
            if c {
                classes.insert(name.to_string());
            }
        };
        add(s.trig_block > 0, "trigger-in-block");
        add(s.trig_accept > 0, "trigger-at-acceptance");
        add(s.same_block_penalty > 0, "penalty-in-same-block-as-dispute");
        add(s.multi_user_locator > 0, "several-users-one-locator-triggered");
        add(s.invalid_drops > 0, "undecryptable-blob-triggered");
        add(s.rejected_drops > 0, "penalty-rejected-by-node");
        add(s.unspecified > 0, "already-in-chain-verdict(unspecified)");
        add(s.in_index > 0, "penalty-found-in-100-block-view");
        add(s.in_mempool > 0, "penalty-already-in-mempool");
        add(s.completions > 0, "completion-at-100");
        add(s.reorg_resends > 0, "reorg-of-confirming-block");
        add(s.rebroadcasts > 0, "stale-rebroadcast");
        add(s.purges > 0, "user-purged");
        add(s.purged_with_data > 0, "user-purged-with-appointments");
        add(s.retriggers > 0, "re-trigger-of-responded-appointment");
        add(s.updates > 0, "appointment-updated");
        add(s.updates_cross_slot > 0, "update-across-slot-boundary");
        add(s.renewals > 0, "renewal");
        add(s.expired_rejections > 0, "request-after-expiry");
        add(s.auth_rejections > 0, "authentication-refused");
        add(s.slot_rejections > 0, "not-enough-slots");
        add(s.already_triggered > 0, "resubmission-of-responded");
        add(s.breaches_per_block_max > 1, "several-breaches-in-one-block");
        add(s.window_edge.iter().any(|x| *x > 0), "acceptance-window-edge(4-6-blocks-old)");
        add(self.restarts > 0, "restart");
        add(self.model.users.values().any(|u| u.forfeited > 0), "slots-forfeited");
        self.report.classes = classes.iter().cloned().collect();
        self.report.counters = vec![
            ("obligations".into(), s.obligations),
            ("rpcs_examined".into(), self.n_rpcs),
            ("ops_executed".into(), self.ops_done as u64),
            ("completions".into(), s.completions),
            ("reorg_resends".into(), s.reorg_resends),
            ("purges".into(), s.purges),
        ];
        self.report.key = format!("{}|ob{}|rp{}", self.report.classes.join(","), s.obligations.min(6), self.n_rpcs.min(8));
        self.tower = None;
        let _ = std::fs::remove_dir_all(&self.dir);
        self.report
    }
}

pub fn run_history(h: &History, tag: &str, wire_audit: bool) -> (CaseReport, model::ModelStats) {
    let mut w = World::new(h, tag);
    w.wire_audit = wire_audit;
    for op in &h.ops {
        if w.dead {
            break;
        }
        w.step(op);
        w.ops_done += 1;
    }
    let stats = w.model.stats.clone();
    let mut rep = w.finish();
    rep.sample = Some(json!({"cfg": h.cfg, "users": h.users, "chans": h.chans, "ops": h.ops.iter().map(|o| format!("{o:?}")).collect::<Vec<_>>()}));
    (rep, stats)
}

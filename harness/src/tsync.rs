//! The sync primitives the tower is built with: the instrumented shim (feature `verif`).
pub use teos::verif::sync::{Condvar, Mutex};

//! The sync primitives the tower is built with (std, or the instrumented shim when the hook exists).
pub use std::sync::{Condvar, Mutex};

#![no_main]
//! libFuzzer entry for vharness::fuzzapi::crypto — the decoding of the bytes and the oracle live in the harness library,
//! so that `./check <id> --replay <artifact>` runs exactly the same code without libFuzzer.
use libfuzzer_sys::fuzz_target;

fuzz_target!(|data: &[u8]| {
    vharness::fuzzapi::crypto(data);
});

#!/usr/bin/env bash
# setup_cmd: builds the merged vendor dir (symlinks into the two cargo registry caches) and the harness.
set -euo pipefail
cd "$(dirname "$0")"
V=/verif/.vendor
if [ ! -f "$V/.complete" ]; then
  rm -rf "$V"; mkdir -p "$V"
  for cache in "$HOME"/.cargo/registry/cache/*; do
    src="$HOME/.cargo/registry/src/$(basename "$cache")"
    for crate in "$cache"/*.crate; do
      nv=$(basename "$crate" .crate); [ -d "$V/$nv" ] && continue
      [ -d "$src/$nv" ] || { mkdir -p "$src"; tar -xzf "$crate" -C "$src"; }
      mkdir "$V/$nv"
      for e in "$src/$nv"/* "$src/$nv"/.[!.]*; do [ -e "$e" ] && ln -s "$e" "$V/$nv/"; done
      rm -f "$V/$nv/.cargo-ok" "$V/$nv/.cargo-checksum.json"
      printf '{"files":{},"package":"%s"}' "$(sha256sum "$crate" | cut -d' ' -f1)" > "$V/$nv/.cargo-checksum.json"
    done
  done
  touch "$V/.complete"
fi
mkdir -p /verif/.cargo
cat > /verif/.cargo/config.toml <<'EOC'
[source.crates-io]
replace-with = "vendored"
[source.vendored]
directory = "/verif/.vendor"
[net]
offline = true
EOC
mkdir -p /verif/evidence /verif/replays
./build.sh

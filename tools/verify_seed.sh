#!/usr/bin/env bash
# verify_seed.sh <dir-with-patch.diff,demo.diff,README.md> <demo-test-filter> [crate]
# Confirms in a scratch worktree (outside /repo and /verif): suite passes with the patch,
# the demonstration fails with it and passes without it. Prints one RESULT line.
set -uo pipefail
SRC=$1; FILTER=$2; CRATE=${3:-teos}; KIND=${4:---lib}
BASE=${BASE:-a4a203b}
WT=/tmp/seedverify/wt
export CARGO_TARGET_DIR=/tmp/seedverify/target
mkdir -p /tmp/seedverify
if [ ! -d $WT ]; then git -C /repo worktree add -q --detach $WT $BASE; fi
cd $WT && git checkout -q --detach $BASE && git checkout -q -- . && git clean -fdq -e target
# 1. demo without patch
git apply $SRC/demo.diff || { echo "RESULT $SRC demo.diff does not apply"; exit 1; }
cargo test -p $CRATE --offline $KIND "$FILTER" > /tmp/seedverify/demo_clean.log 2>&1; D0=$?
# 2. demo with patch
git apply $SRC/patch.diff || { echo "RESULT $SRC patch.diff does not apply on top of demo"; exit 1; }
cargo test -p $CRATE --offline $KIND "$FILTER" > /tmp/seedverify/demo_patched.log 2>&1; D1=$?
# 3. suite with patch only
git checkout -q -- . && git clean -fdq -e target && git apply $SRC/patch.diff
cargo test --workspace --offline --no-fail-fast > /tmp/seedverify/suite.log 2>&1; S=$?
PASSED=$(grep -h "^test result" /tmp/seedverify/suite.log | awk '{s+=$4} END{print s}')
FAILED=$(grep -h "^test result" /tmp/seedverify/suite.log | awk '{s+=$6} END{print s}')
git checkout -q -- . && git clean -fdq -e target
echo "RESULT $SRC demo_without_patch_exit=$D0 demo_with_patch_exit=$D1 suite_exit=$S passed=$PASSED failed=$FAILED"

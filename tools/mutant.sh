#!/usr/bin/env bash
# mutant.sh <patch.diff> <check> [<check>...]   — applies a seeded change to /repo, runs the checks (quick), undoes it.
set -uo pipefail
P=$1; shift
cd /repo
if ! git diff --quiet; then echo "/repo has uncommitted changes, refusing"; exit 3; fi
if ! git apply "$P" 2>/tmp/mutant_apply.err; then
  if ! git apply --3way "$P" 2>>/tmp/mutant_apply.err; then echo "MUTANT $P: patch does not apply"; cat /tmp/mutant_apply.err; git reset -q --hard HEAD; exit 3; fi
  git reset -q   # --3way stages; keep it in the working tree only
fi
cd /verif
for c in "$@"; do
  out=$(VERIF_SEED=${VERIF_SEED:-1} ./check $c quick 2>&1); code=$?
  echo "MUTANT $(basename $(dirname $P)) check=$c exit=$code $(echo "$out" | grep -m1 '^VIOLATION' )"
  echo "$out" | grep -A2 '^VIOLATION' | sed -n 2,3p
done
git -C /repo reset -q --hard HEAD
git -C /repo status --short | grep -v '^??' | head

#!/usr/bin/env bash
# (re)builds the harness from /repo's current working tree, hooks on. No-op when nothing changed.
set -euo pipefail
cd /verif/harness
[ -f /verif/.cargo/config.toml ] || { echo "run ./setup.sh first" >&2; exit 3; }
# keep the lock file in step with the repo's (pinned versions), cargo adds what the harness needs on top
if [ ! -f Cargo.lock ] || [ /repo/Cargo.lock -nt Cargo.lock ]; then cp /repo/Cargo.lock Cargo.lock; fi
export CARGO_NET_OFFLINE=true
exec cargo +stable build --profile verif --bin vcheck "$@" 2>&1 | tail -n 40

#!/usr/bin/env bash
# (re)builds the harness from /repo's current working tree, hooks on. No-op when nothing changed.
set -euo pipefail
cd /verif/harness
[ -f /verif/.cargo/config.toml ] || { echo "run ./setup.sh first" >&2; exit 3; }
# keep the lock file in step with the repo's (pinned versions), cargo adds what the harness needs on top
if [ ! -f Cargo.lock ] || [ /repo/Cargo.lock -nt Cargo.lock ]; then cp /repo/Cargo.lock Cargo.lock; fi
export CARGO_NET_OFFLINE=true
# the real client binary (with hooks) for the process-level engine
cargo +stable build --manifest-path /repo/Cargo.toml -p watchtower-plugin --bin watchtower-client --features verif --target-dir /verif/harness/target/bins --locked 2>&1 | tail -n 15
[ "${PIPESTATUS[0]}" = "0" ] || exit 1
cargo +stable build --profile verif --bin vcheck "$@" 2>&1 | tail -n 40
exit "${PIPESTATUS[0]}"
